------------------------------------------ MODULE PkgDiff ------------------------------------------
(* abipkgdiff's comparison of two packages (tools/abipkgdiff.cc), properties C30 and C31.              *)
(*                                                                                                     *)
(* A package is a function [Paths -> {"absent","v1","v2","v3"}]: which build of each binary it ships.  *)
(* "v1" is the base build, "v2" a compatible-change variant (a struct member was added: abidiff sets   *)
(* the change bit), "v3" an incompatible variant (a function was removed: change + incompatible bits). *)
(* What abidiff says about a pair of builds is a recorded fact, the CONSTANT function PairBits; the    *)
(* file sizes (the task order depends on them) and the directory layout are recorded facts too.        *)
(*                                                                                                     *)
(* One behaviour = one invocation, one action per pass of the code, in code order:                     *)
(*   MapPackages      create_maps_of_package_content, twice (pkg_prepare tasks): the key of a binary   *)
(*   DetectRemoved    compare_prepared_userspace_packages, first loop: pair by key, removed binaries   *)
(*   BuildTaskList    std::sort(compare_tasks, elf_size_is_greater): by decreasing size, then by name  *)
(*   Pop/Compare/NotifyDone   the comparison queue: composition with the worker-queue abstraction      *)
(*   SortDone         std::sort(done_tasks, elf_size_is_greater)                                        *)
(*   PrintReports     the reports of the pairs with changes, in that order                             *)
(*   DetectAdded      what is left of the second map                                                   *)
(*   StatusOverwrite | StatusAccumulate     `status = notifier.status` (as coded) | `status |= ...`    *)
(*   Exit                                                                                              *)
(*                                                                                                     *)
(* Composition with WorkerQueueAbs: the comparison queue is that module with PerformBegin..PerformEnd  *)
(* merged into Compare, DonePush..NotifyEnd merged into NotifyDone (WorkerQueueAbs!NotifierSequential  *)
(* makes that section atomic) and anonymous workers (they are symmetric): tasks are popped in FIFO     *)
(* order by at most nw workers and complete in ANY order those pops allow.  Implementation runs are    *)
(* bound to this by WorkerQueueAbsTrace (H1 events) and by the admissibility test of PkgDiffTrace.     *)
(*                                                                                                     *)
(* Two transcribed passages deviate from the property; each is a named alternative selected by a       *)
(* CONSTANT (the check sets it from a fingerprint of the source, see checks/_pkgdiff.py):              *)
(*   Fixed = FALSE      StatusOverwrite: `status = notifier.status` discards the removal bits          *)
(*   FixedKeys = FALSE  a binary is keyed by its path *after the prefix common to the directories of   *)
(*                      the package's binaries* (package::convert_path_to_unique_suffix): the key of   *)
(*                      one binary depends on which other binaries the package contains                *)
(*   FixedKeys = TRUE   the key is the path below the package root.  (A binary has the same path in    *)
(*                      both packages here; pairing across differently named top-most directories --  *)
(*                      foo-1.0/ against foo-1.1/ in archives -- is outside this model.)              *)
EXTENDS Integers, Sequences, FiniteSets, TLC, Json

CONSTANTS Paths,        \* binaries: naturals, numbered in the order of their file names
          Layouts,      \* set of layouts; a layout maps a binary to its directory below the package root (a sequence of characters)
          Size,         \* [Paths \X {"v1","v2","v3"} -> Nat]: file size of a build
          PairBits,     \* [{"v1","v2","v3"} \X {"v1","v2","v3"} -> 0..15]: abidiff's exit status on two builds of one binary
          Vers1, Vers2, \* what the first / the second package may ship of each binary
          MaxWorkers,
          Fixed, FixedKeys

OK == 0  ERROR == 1  USAGE == 2  CHANGE == 4  INCOMPAT == 8
Bit(x, b) == (x \div b) % 2 = 1
Or(a, b) == (IF Bit(a, 1) \/ Bit(b, 1) THEN 1 ELSE 0) + (IF Bit(a, 2) \/ Bit(b, 2) THEN 2 ELSE 0)
          + (IF Bit(a, 4) \/ Bit(b, 4) THEN 4 ELSE 0) + (IF Bit(a, 8) \/ Bit(b, 8) THEN 8 ELSE 0)
Min(a, b) == IF a <= b THEN a ELSE b

Builds == {"v1", "v2", "v3"}
Versions == Builds \cup {"absent"}

(* ---- defaults the configurations substitute for the recorded facts ------------------------------- *)
(* v1->v2 adds a member (change), v2->v1 removes it (change), ->v3 loses a function (incompatible),    *)
(* v3-> gains one (an added function is a change).  checks/C30.py re-measures these with abidiff.      *)
DefaultPairBits ==
  [x \in Builds \X Builds |->
     IF x[1] = x[2] THEN 0
     ELSE IF x[2] = "v3" THEN CHANGE + INCOMPAT
     ELSE CHANGE]
(* sizes chosen so that size order and name order disagree and ties exist *)
DefaultSize == [x \in Paths \X Builds |-> CASE x[1] = 1 -> (IF x[2] = "v3" THEN 1 ELSE 2)
                                            [] x[1] = 2 -> (IF x[2] = "v2" THEN 3 ELSE 2)
                                            [] OTHER    -> 3]
FlatLayout  == [p \in Paths |-> <<"l", "/">>]                                           \* usr/lib/ for every binary
MixedLayout == [p \in Paths |-> IF p = 3 THEN <<"l", "6", "/">> ELSE <<"l", "/">>]       \* the third one in usr/lib64/
DefaultLayouts == {FlatLayout, MixedLayout}

(* =================================================================================================== *)
(* Pure operators: the outcome of a comparison as a function of the inputs.  P-indexed functions:      *)
(*   d  directory of a binary, p1/p2 the packages, sz the added sizes of a pair, bits abidiff's exit   *)
(* They are what PkgDiffTrace evaluates on a recorded run, and what the state machine below must equal *)
(* for every interleaving (OrderIndependent).                                                          *)
In(pk) == {p \in DOMAIN pk : pk[p] # "absent"}

CommonPrefix(s, t) ==
  LET m == Min(Len(s), Len(t))
      n == CHOOSE k \in 0..m : (\A i \in 1..k : s[i] = t[i]) /\ (k = m \/ s[k + 1] # t[k + 1])
  IN SubSeq(s, 1, n)

RECURSIVE PrefixOfSet(_)                 \* sorted_strings_common_prefix over the directory names of a package's binaries
PrefixOfSet(D) == IF D = {} THEN <<>>
                  ELSE LET x == CHOOSE x \in D : TRUE
                       IN IF D = {x} THEN x ELSE CommonPrefix(x, PrefixOfSet(D \ {x}))

(* the key under which a package maps the binary p: its directory (relative to the package root when   *)
(* corrected; what is left of it after the package's common prefix as coded) and its name / SONAME     *)
Key(d, pk, p, fk) ==
  IF fk THEN <<d[p], p>>
  ELSE LET pre == PrefixOfSet({d[q] : q \in In(pk)}) IN <<SubSeq(d[p], Len(pre) + 1, Len(d[p])), p>>

Matched(d, p1, p2, fk) == {p \in In(p1) \cap In(p2) : Key(d, p1, p, fk) = Key(d, p2, p, fk)}
Removed(d, p1, p2, fk) == In(p1) \ Matched(d, p1, p2, fk)
Added(d, p1, p2, fk)   == In(p2) \ Matched(d, p1, p2, fk)

TaskLess(sz, p, q) == sz[p] > sz[q] \/ (sz[p] = sz[q] /\ p < q)          \* elf_size_is_greater
RECURSIVE SortSet(_, _)
SortSet(S, sz) == IF S = {} THEN <<>>
                  ELSE LET m == CHOOSE x \in S : \A y \in S \ {x} : TaskLess(sz, x, y)
                       IN <<m>> \o SortSet(S \ {m}, sz)
RECURSIVE OrAll(_, _)
OrAll(f, S) == IF S = {} THEN 0 ELSE LET x == CHOOSE x \in S : TRUE IN Or(f[x], OrAll(f, S \ {x}))
RemovalBits(R) == IF R # {} THEN CHANGE + INCOMPAT ELSE 0

Outcome(d, sz, p1, p2, bits, fs, fk) ==
  LET M == Matched(d, p1, p2, fk)
      R == Removed(d, p1, p2, fk)
  IN [exit    |-> IF fs THEN Or(RemovalBits(R), OrAll(bits, M)) ELSE OrAll(bits, M),
      removed |-> R,
      added   |-> Added(d, p1, p2, fk),
      printed |-> SelectSeq(SortSet(M, sz), LAMBDA p : Bit(bits[p], CHANGE))]

(* C30 as stated, for a reported outcome o = [exit, removed, added, printed] *)
TrueMatched(p1, p2) == In(p1) \cap In(p2)
TrueRemoved(p1, p2) == In(p1) \ In(p2)
TrueAdded(p1, p2)   == In(p2) \ In(p1)
VerdictHolds(o, sz, p1, p2, bits) ==
  LET M == TrueMatched(p1, p2)  R == TrueRemoved(p1, p2)
  IN /\ R # {} => Bit(o.exit, CHANGE) /\ Bit(o.exit, INCOMPAT)                 \* a lost binary: both bits
     /\ \A p \in M : Bit(bits[p], CHANGE) => Bit(o.exit, CHANGE)               \* a changed pair: the change bit
     /\ o.exit = 0 <=> (R = {} /\ \A p \in M : bits[p] = 0)                    \* 0 only if nothing was lost and all pairs are clean
     /\ o.exit = Or(RemovalBits(R), OrAll(bits, M))                            \* exactly the OR of the per-binary verdicts
     /\ o.removed = R /\ o.added = TrueAdded(p1, p2)                           \* every binary is accounted for ...
     /\ o.printed = SelectSeq(SortSet(M, sz), LAMBDA p : Bit(bits[p], CHANGE)) \* ... and the per-binary verdicts are abidiff's

(* C31, queue side: is `order` (task numbers in completion order) possible for n tasks popped FIFO by w workers? *)
Admissible(order, n, w) ==
  /\ Len(order) = n /\ \A t \in 1..n : \E k \in 1..n : order[k] = t
  /\ \A k \in 1..n : order[k] <= k - 1 + w

(* =================================================================================================== *)
(* The state machine *)
VARIABLES layout, pkg1, pkg2,          \* the invocation
          nw,                          \* worker threads of the comparison queue (0: no queue yet); any number the machine / --no-parallel may give
          pc,
          map1, map2,                  \* path_elf_file_sptr_map of the two packages (the binaries mapped)
          removed, added,              \* diff.removed_binaries, diff.added_binaries (sequences, in map order)
          tasks,                       \* compare_tasks
          todo, running, result, doneq,\* the comparison queue; result[p] = compare_task::status (-1: not performed)
          nstatus,                     \* notifier.status
          status,                      \* the local `status` of compare_prepared_userspace_packages
          printed,                     \* binaries whose report was printed, in order
          exit
vars == <<layout, pkg1, pkg2, nw, pc, map1, map2, removed, added, tasks, todo, running, result, doneq, nstatus, status, printed, exit>>

PairSize == [p \in Paths |-> IF p \in In(pkg1) \cap In(pkg2) THEN Size[<<p, pkg1[p]>>] + Size[<<p, pkg2[p]>>] ELSE 0]
BitsFn   == [p \in Paths |-> IF p \in In(pkg1) \cap In(pkg2) THEN PairBits[<<pkg1[p], pkg2[p]>>] ELSE 0]
Ascending(S) == SortSet(S, [p \in Paths |-> 0])                          \* std::map iteration order

Init ==
  /\ layout \in Layouts /\ pkg1 \in [Paths -> Vers1] /\ pkg2 \in [Paths -> Vers2] /\ nw = 0
  /\ pc = "map" /\ map1 = {} /\ map2 = {} /\ removed = <<>> /\ added = <<>> /\ tasks = <<>> /\ todo = <<>>
  /\ running = [p \in Paths |-> "none"] /\ result = [p \in Paths |-> -1] /\ doneq = <<>>
  /\ nstatus = 0 /\ status = 0 /\ printed = <<>> /\ exit = -1

MapPackages ==
  /\ pc = "map" /\ pc' = "detect"
  /\ map1' = In(pkg1) /\ map2' = In(pkg2)
  /\ UNCHANGED <<layout, pkg1, pkg2, nw, removed, added, tasks, todo, running, result, doneq, nstatus, status, printed, exit>>

DetectRemoved ==
  /\ pc = "detect" /\ pc' = "tasks"
  /\ LET M == {p \in map1 : p \in map2 /\ Key(layout, pkg1, p, FixedKeys) = Key(layout, pkg2, p, FixedKeys)}
     IN /\ tasks' = Ascending(M)
        /\ map2' = map2 \ M
        /\ removed' = Ascending(map1 \ M)
        /\ status' = RemovalBits(map1 \ M)
  /\ UNCHANGED <<layout, pkg1, pkg2, nw, map1, added, todo, running, result, doneq, nstatus, printed, exit>>

BuildTaskList ==
  /\ pc = "tasks"
  /\ tasks' = SortSet({tasks[i] : i \in 1..Len(tasks)}, PairSize)
  /\ IF tasks = <<>> THEN pc' = "added" /\ todo' = todo /\ nw' = nw                \* `if (!compare_tasks.empty())`
     ELSE /\ pc' = "run" /\ todo' = tasks'                                          \* schedule_tasks
          /\ nw' \in 1..Min(MaxWorkers, Len(tasks))                                 \* min(opts.num_workers, compare_tasks.size()), 1 if --no-parallel
  /\ UNCHANGED <<layout, pkg1, pkg2, map1, map2, removed, added, running, result, doneq, nstatus, status, printed, exit>>

Busy == {p \in Paths : running[p] # "none"}
Pop(p) ==
  /\ pc = "run" /\ todo # <<>> /\ p = Head(todo) /\ Cardinality(Busy) < nw
  /\ todo' = Tail(todo) /\ running' = [running EXCEPT ![p] = "popped"]
  /\ UNCHANGED <<layout, pkg1, pkg2, nw, pc, map1, map2, removed, added, tasks, result, doneq, nstatus, status, printed, exit>>
Compare(p) ==
  /\ pc = "run" /\ running[p] = "popped"
  /\ result' = [result EXCEPT ![p] = BitsFn[p]] /\ running' = [running EXCEPT ![p] = "performed"]
  /\ UNCHANGED <<layout, pkg1, pkg2, nw, pc, map1, map2, removed, added, tasks, todo, doneq, nstatus, status, printed, exit>>
NotifyDone(p) ==                                                    \* tasks_done.push_back + comparison_done_notify, under tasks_done_mutex
  /\ pc = "run" /\ running[p] = "performed"
  /\ doneq' = Append(doneq, p) /\ nstatus' = Or(nstatus, result[p]) /\ running' = [running EXCEPT ![p] = "none"]
  /\ UNCHANGED <<layout, pkg1, pkg2, nw, pc, map1, map2, removed, added, tasks, todo, result, status, printed, exit>>
QueueDrained ==                                                     \* wait_for_workers_to_complete returns
  /\ pc = "run" /\ todo = <<>> /\ Busy = {} /\ pc' = "sortdone"
  /\ UNCHANGED <<layout, pkg1, pkg2, nw, map1, map2, removed, added, tasks, todo, running, result, doneq, nstatus, status, printed, exit>>

SortDone ==
  /\ pc = "sortdone" /\ pc' = "print"
  /\ doneq' = SortSet({doneq[i] : i \in 1..Len(doneq)}, PairSize)
  /\ UNCHANGED <<layout, pkg1, pkg2, nw, map1, map2, removed, added, tasks, todo, running, result, nstatus, status, printed, exit>>
PrintReports ==
  /\ pc = "print" /\ pc' = "added"
  /\ printed' = SelectSeq(doneq, LAMBDA p : Bit(result[p], CHANGE))
  /\ UNCHANGED <<layout, pkg1, pkg2, nw, map1, map2, removed, added, tasks, todo, running, result, doneq, nstatus, status, exit>>
DetectAdded ==
  /\ pc = "added" /\ pc' = "status"
  /\ added' = Ascending(map2)
  /\ UNCHANGED <<layout, pkg1, pkg2, nw, map1, map2, removed, tasks, todo, running, result, doneq, nstatus, status, printed, exit>>

StatusOverwrite ==                                                  \* as coded: status = notifier.status;
  /\ ~Fixed /\ pc = "status" /\ pc' = "exit" /\ status' = nstatus
  /\ UNCHANGED <<layout, pkg1, pkg2, nw, map1, map2, removed, added, tasks, todo, running, result, doneq, nstatus, printed, exit>>
StatusAccumulate ==                                                 \* corrected: status |= notifier.status;
  /\ Fixed /\ pc = "status" /\ pc' = "exit" /\ status' = Or(status, nstatus)
  /\ UNCHANGED <<layout, pkg1, pkg2, nw, map1, map2, removed, added, tasks, todo, running, result, doneq, nstatus, printed, exit>>
Exit ==
  /\ pc = "exit" /\ pc' = "done" /\ exit' = status
  /\ UNCHANGED <<layout, pkg1, pkg2, nw, map1, map2, removed, added, tasks, todo, running, result, doneq, nstatus, status, printed>>
Terminated == pc = "done" /\ UNCHANGED vars

Step == \/ MapPackages \/ DetectRemoved \/ BuildTaskList
        \/ (\E p \in Paths : Pop(p) \/ Compare(p) \/ NotifyDone(p)) \/ QueueDrained
        \/ SortDone \/ PrintReports \/ DetectAdded \/ StatusOverwrite \/ StatusAccumulate \/ Exit
Next == Step \/ Terminated
Spec == Init /\ [][Next]_vars /\ WF_vars(Step)

(* ---- properties ----------------------------------------------------------------------------------- *)
SeqSet(s) == {s[i] : i \in 1..Len(s)}
TypeOK ==
  /\ pkg1 \in [Paths -> Versions] /\ pkg2 \in [Paths -> Versions] /\ nw \in 0..MaxWorkers /\ layout \in Layouts
  /\ pc \in {"map", "detect", "tasks", "run", "sortdone", "print", "added", "status", "exit", "done"}
  /\ map1 \subseteq Paths /\ map2 \subseteq Paths
  /\ running \in [Paths -> {"none", "popped", "performed"}] /\ Cardinality(Busy) <= nw
  /\ result \in [Paths -> -1..15] /\ nstatus \in 0..15 /\ status \in 0..15 /\ exit \in -1..15
  /\ \A s \in {removed, added, tasks, todo, doneq, printed} : s \in Seq(Paths) /\ Cardinality(SeqSet(s)) = Len(s)

Reported == [exit |-> exit, removed |-> SeqSet(removed), added |-> SeqSet(added), printed |-> printed]

(* C30 *)
Verdict == pc = "done" => VerdictHolds(Reported, PairSize, pkg1, pkg2, BitsFn)

(* C30, "covers every binary": every binary of the first package was either compared or reported as removed, never both *)
EveryBinaryCovered ==
  pc = "done" => \A p \in In(pkg1) : (result[p] # -1) # (p \in SeqSet(removed))

(* C31: whatever the number of workers and the completion order, the outcome is the one function of the inputs *)
(* (in particular the one of the sequential run, nw = 1, which is among the behaviours)                        *)
OrderIndependent == pc = "done" => Reported = Outcome(layout, PairSize, pkg1, pkg2, BitsFn, Fixed, FixedKeys)

(* while the queue runs: the notifier's status is the OR of the statuses of the tasks notified so far *)
NotifierStatus == nstatus = OrAll(result, SeqSet(doneq))

Terminates == <>(pc = "done")

(* ---- generator: one JSON line per invocation (initial state), nothing explored beyond -------------- *)
AsSeq(f) == [i \in 1..Cardinality(Paths) |-> f[i]]
Emit == pc = "map" /\ PrintT(ToJson([layout |-> AsSeq(layout), pkg1 |-> AsSeq(pkg1), pkg2 |-> AsSeq(pkg2)])) /\ FALSE

(* ---- a resting state for modules that extend this one only for its operators (PkgDiffTrace) -------- *)
Idle ==
  /\ layout = <<>> /\ pkg1 = <<>> /\ pkg2 = <<>> /\ nw = 0 /\ pc = "idle" /\ map1 = {} /\ map2 = {} /\ removed = <<>> /\ added = <<>>
  /\ tasks = <<>> /\ todo = <<>> /\ running = <<>> /\ result = <<>> /\ doneq = <<>> /\ nstatus = 0 /\ status = 0 /\ printed = <<>> /\ exit = -1
====================================================================================================
