-------------------------------------- MODULE CorpusDiffTrace --------------------------------------
(* Trace validation for campaign X (C11, C19): each event is one pair of corpora of CorpusDiff's      *)
(* universe rendered as ABIXML (or as real DSOs) and compared by the real abidiff in both directions. *)
(* Checked per event: (1) conformance -- the observed removed/added tables and exit bits are those of *)
(* the transcription; (2) the property named by ev.prop ("mirror" for C11, "setdiff" for C19).         *)
EXTENDS CorpusDiff, Json, IOUtils, KnownFindings

T == ndJsonDeserialize(IOEnv.TRACE)
VARIABLES l, verdict

ToSet(s) == {s[i] : i \in 1..Len(s)}
Corpus(rows) == {[n |-> r.n, v |-> r.v, d |-> r.d, decl |-> r.decl] : r \in ToSet(rows)}
Pairs(rows) == {<<r[1], r[2]>> : r \in ToSet(rows)}          \* observed [name, version] pairs
Bit(x, b) == (x \div b) % 2 = 1

Conforms(X, Y, o) ==       \* o: observation of `abidiff X Y`
  /\ Pairs(o.removedDecls) = Keys(RemovedDecls(X, Y)) /\ Pairs(o.addedDecls) = Keys(AddedDecls(X, Y))
  /\ Pairs(o.removedSyms) = Keys(RemovedSyms(X, Y)) /\ Pairs(o.addedSyms) = Keys(AddedSyms(X, Y))
  /\ (o.exit % 16) = ExitBits(X, Y)

ObsMirror(ab, ba) == /\ Pairs(ab.removedDecls) = Pairs(ba.addedDecls) /\ Pairs(ab.removedSyms) = Pairs(ba.addedSyms)
                     /\ Pairs(ba.removedDecls) = Pairs(ab.addedDecls) /\ Pairs(ba.removedSyms) = Pairs(ab.addedSyms)
ObsSetDiff(X, Y, o) == /\ Pairs(o.removedDecls) \cup Pairs(o.removedSyms) = Keys(StrictRemoved(X, Y))
                       /\ Pairs(o.addedDecls) \cup Pairs(o.addedSyms) = Keys(StrictAdded(X, Y))
                       /\ (StrictRemoved(X, Y) # {} => Bit(o.exit, 8) /\ Bit(o.exit, 4))
                       /\ (Keys(X) = Keys(Y) => o.exit = 0)

Verdict(ev) ==
  LET X == Corpus(ev.a) Y == Corpus(ev.b) IN
  IF ev.ret # "ok" THEN "bad:crash"
  ELSE IF ~Conforms(X, Y, ev.ab) \/ ~Conforms(Y, X, ev.ba) THEN "bad:tables-differ-from-the-transcription"
  ELSE IF ev.prop = "mirror" THEN
         (IF ObsMirror(ev.ab, ev.ba) THEN "ok"
          ELSE IF KF_DefaultVersionReexport(X, Y) /\ KF_C11_listed THEN "kf:C11-default-version-reexport" ELSE "bad:not-mirrored")
  ELSE (IF ObsSetDiff(X, Y, ev.ab) /\ ObsSetDiff(Y, X, ev.ba) THEN "ok"
        ELSE IF KF_DefaultVersionReexport(X, Y) /\ KF_C19_listed THEN "kf:C19-default-version-reexport" ELSE "bad:not-the-set-difference")

TInit == l = 1 /\ verdict = "ok" /\ A = {} /\ B = {}
TNext == l <= Len(T) /\ l' = l + 1 /\ verdict' = Verdict(T[l]) /\ A' = Corpus(T[l].a) /\ B' = Corpus(T[l].b)
TSpec == TInit /\ [][TNext]_<<A, B, l, verdict>>
Report == verdict = "ok" \/ PrintT(ToJson([i |-> l - 1, v |-> verdict]))
Accepted == TLCGet("stats").diameter - 1 = Len(T)
====================================================================================================
