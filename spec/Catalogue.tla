------------------------------------------ MODULE Catalogue ------------------------------------------
(* The link between the mutation catalogue of Abi.tla (what was edited in the source) and the local    *)
(* category classes of DiffTree.tla (what categorize_harmful_diff_node / categorize_harmless_diff_node  *)
(* attach to the diff node of the edited construct).  Only the entries whose category does not depend    *)
(* on layout accidents are listed; "NONE" = libabigail attaches no category to the change (it is         *)
(* reported because an empty category set is never filtered -- see the C05 known findings).             *)
(* DiffTreeTrace checks, for pairs that differ by exactly one catalogue entry, that some node of the     *)
(* dumped forest carries the class in its *local* category.                                              *)
CategoryOfKind(k) ==
  CASE k \in {"member-insert", "member-remove", "param-add", "param-remove", "fnptr-param-add", "fnptr-param-remove"} -> "HARMFUL"
    [] k \in {"virtual-add", "virtual-remove"} -> "VIRTUAL"
    [] k \in {"enumerator-append", "typedef-rename", "param-top-const", "access-change"} -> "HARMLESS"
    [] k \in {"return-type", "enumerator-value"} -> "NONE"
    [] OTHER -> "UNSPECIFIED"
HasSpecifiedCategory(k) == CategoryOfKind(k) \in {"HARMFUL", "VIRTUAL", "HARMLESS"}
=======================================================================================================
