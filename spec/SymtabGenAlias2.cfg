\* generator: tables of <= 2 rows over addresses x kinds x publicness
CONSTANT Plans <- PlanGenAlias2
SPECIFICATION Spec
CONSTRAINT GenEmit
CHECK_DEADLOCK FALSE
