\* witness (expected to FAIL): the alias walk stops at the main symbol
CONSTANTS N = 4
          Addrs = {0, 1}
          MaxDies = 3
          Dev = {"walk-stops-at-main"}
SPECIFICATION Spec
INVARIANTS Partition
CHECK_DEADLOCK FALSE
