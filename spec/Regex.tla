------------------------------------------- MODULE Regex -------------------------------------------
(* regex::escape / regex::generate_from_strings / compile / match of src/abg-regex.cc (property C27, *)
(* first half: "a KMI whitelist selects exactly the listed symbol names, whatever characters the     *)
(* names contain").                                                                                 *)
(*                                                                                                  *)
(* A string is a sequence of *tokens*; every token is one byte (TLC cannot look inside a TLA+        *)
(* string).  The alphabet is two ordinary characters plus every character that is special somewhere *)
(* in a POSIX extended regular expression.                                                          *)
(*                                                                                                  *)
(* Part 1: transcription of escape and generate_from_strings.                                       *)
(* Part 2: what regcomp(REG_EXTENDED) / regexec do with a pattern, token by token: a parser and a   *)
(*         matcher for the ERE fragment  literals, \-escaped specials, ".", "^", "$", groups,       *)
(*         alternation and the one-character repetition operators.  Constructs whose meaning POSIX  *)
(*         leaves undefined or that the fragment does not interpret (bracket expressions, interval  *)
(*         expressions, a repetition operator with nothing to repeat, an unmatched parenthesis, a   *)
(*         backslash before an ordinary character or at the end) parse to "undef": a generated      *)
(*         pattern must never contain one.  An unescaped special therefore either changes the        *)
(*         language (TLC shows the string that is wrongly accepted / refused) or makes the pattern   *)
(*         undefined -- TLC finds any character that Escape forgets.                                *)
(* Part 3: the property GenFromStringsIsMembership over every vector of at most MaxSet strings of   *)
(*         at most MaxLen tokens and every string x of the same space.                              *)
EXTENDS Naturals, Integers, Sequences, FiniteSets, TLC, Json

CONSTANTS Tokens,       \* the alphabet of the enumerated strings
          MaxLen,       \* maximal length of a string
          MaxSet,       \* maximal length of the vector given to generate_from_strings
          EscSpecials   \* the characters escape() prefixes with a backslash

BS == "\\"
AllTokens   == {"a", "b", ".", "*", "+", "?", "(", ")", "[", "]", "{", "}", "|", "^", "$", BS}
SmallTokens == {"a", ".", "+", "(", "|", "$", BS}
TinyTokens  == {"a", ".", "|", BS}
NameTokens  == {"a", "b", ".", "*", "+", "?", "(", ")", "|", "^", "$"}     \* specials a KMI whitelist file can express literally (checks/C27.py)
(* static const std::string specials = "^.[]$()|*+?{}\\";   (src/abg-regex.cc) *)
PinnedSpecials == {"^", ".", "[", "]", "$", "(", ")", "|", "*", "+", "?", "{", "}", BS}
(* what is special in a POSIX ERE outside a bracket expression ("]" and "}" are only special after  *)
(* their opening counterpart; escaping them is harmless)                                            *)
EreSpecials == {"^", ".", "[", "$", "(", ")", "|", "*", "+", "?", "{", BS}

Range(s) == {s[i] : i \in 1..Len(s)}

(* ================================ 1. transcriptions ============================================ *)
RECURSIVE Escape(_)
Escape(s) == IF s = <<>> THEN <<>>
             ELSE (IF Head(s) \in EscSpecials THEN <<BS, Head(s)>> ELSE <<Head(s)>>) \o Escape(Tail(s))

RECURSIVE GenRest(_, _)
GenRest(strs, i) == IF i > Len(strs) THEN <<>> ELSE <<"|">> \o Escape(strs[i]) \o GenRest(strs, i + 1)
(* generate_from_strings: "^_^" for the empty vector ("this cute-looking regex does not match any string") *)
Gen(strs) == IF strs = <<>> THEN <<"^", "_", "^">>
             ELSE <<"^", "(">> \o Escape(strs[1]) \o GenRest(strs, 2) \o <<")", "$">>

(* ================================ 2. POSIX ERE (fragment) ====================================== *)
Undef == [k |-> "undef"]
Empty == [k |-> "empty"]
Lit(t) == [k |-> "lit", t |-> t]
Cat2(a, b) == IF a.k = "undef" \/ b.k = "undef" THEN Undef
              ELSE IF b.k = "empty" THEN a ELSE IF a.k = "empty" THEN b ELSE [k |-> "cat", a |-> a, b |-> b]
Alt2(a, b) == IF a.k = "undef" \/ b.k = "undef" THEN Undef ELSE [k |-> "alt", a |-> a, b |-> b]
Rep(q, r)  == [k |-> (CASE q = "*" -> "star" [] q = "+" -> "plus" [] OTHER -> "opt"), r |-> r]
Res(r, i)  == [r |-> r, i |-> i]
Fail       == Res(Undef, 0)

(* recursive descent; i = index of the next token, depth = number of open groups *)
RECURSIVE PAlt(_, _, _), PCat(_, _, _), PAtom(_, _, _), PQuant(_, _, _)
PAlt(p, i, depth) ==
  LET b == PCat(p, i, depth)
  IN IF b.r.k = "undef" THEN Fail
     ELSE IF b.i <= Len(p) /\ p[b.i] = "|"
          THEN LET rest == PAlt(p, b.i + 1, depth)
               IN IF rest.r.k = "undef" THEN Fail ELSE Res(Alt2(b.r, rest.r), rest.i)
          ELSE b
(* a branch: pieces up to "|", the ")" that closes the current group, or the end.  An empty branch matches the   *)
(* empty string (glibc; POSIX leaves "(|" and "()" undefined -- see Assumptions in checks/C27.py).              *)
PCat(p, i, depth) ==
  IF i > Len(p) \/ p[i] = "|" \/ (p[i] = ")" /\ depth > 0) THEN Res(Empty, i)
  ELSE LET a == PAtom(p, i, depth)
       IN IF a.r.k = "undef" THEN Fail
          ELSE LET q == PQuant(p, a.i, a.r)
               IN IF q.r.k = "undef" THEN Fail
                  ELSE LET rest == PCat(p, q.i, depth)
                       IN IF rest.r.k = "undef" THEN Fail ELSE Res(Cat2(q.r, rest.r), rest.i)
PAtom(p, i, depth) ==
  LET t == p[i]
  IN CASE t = "(" -> LET e == PAlt(p, i + 1, depth + 1)
                     IN IF e.r.k # "undef" /\ e.i <= Len(p) /\ p[e.i] = ")"
                        THEN Res([k |-> "group", r |-> e.r], e.i + 1) ELSE Fail
       [] t = "." -> Res([k |-> "any"], i + 1)
       [] t = "^" -> Res([k |-> "bol"], i + 1)          \* an anchor wherever it stands (ERE)
       [] t = "$" -> Res([k |-> "eol"], i + 1)
       [] t = BS  -> IF i + 1 <= Len(p) /\ p[i + 1] \in (EreSpecials \cup {"]", "}"})
                     THEN Res(Lit(p[i + 1]), i + 2) ELSE Fail      \* "\a", trailing "\": undefined
       [] t \in {"*", "+", "?", "{"} -> Fail             \* nothing to repeat: undefined
       [] t = "[" -> Fail                                \* bracket expression: not interpreted by this fragment
       [] t = ")" -> Fail                                \* unmatched: undefined
       [] OTHER -> Res(Lit(t), i + 1)                     \* ordinary characters, and "]" "}" on their own
PQuant(p, i, r) ==
  IF i <= Len(p) /\ p[i] \in {"*", "+", "?"} THEN PQuant(p, i + 1, Rep(p[i], r))
  ELSE IF i <= Len(p) /\ p[i] = "{" THEN Fail             \* interval expression: not interpreted
  ELSE Res(r, i)

Parse(p) == LET e == PAlt(p, 1, 0) IN IF e.r.k # "undef" /\ e.i = Len(p) + 1 THEN e.r ELSE Undef

(* Ends(r, x, i): the positions j such that r matches x[i+1..j] (positions are 0..Len(x)) *)
RECURSIVE Ends(_, _, _), Close(_, _, _)
Ends(r, x, i) ==
  CASE r.k = "lit"   -> IF i < Len(x) /\ x[i + 1] = r.t THEN {i + 1} ELSE {}
    [] r.k = "any"   -> IF i < Len(x) THEN {i + 1} ELSE {}
    [] r.k = "bol"   -> IF i = 0 THEN {i} ELSE {}
    [] r.k = "eol"   -> IF i = Len(x) THEN {i} ELSE {}
    [] r.k = "empty" -> {i}
    [] r.k = "group" -> Ends(r.r, x, i)
    [] r.k = "cat"   -> UNION {Ends(r.b, x, j) : j \in Ends(r.a, x, i)}
    [] r.k = "alt"   -> Ends(r.a, x, i) \cup Ends(r.b, x, i)
    [] r.k = "opt"   -> {i} \cup Ends(r.r, x, i)
    [] r.k = "star"  -> Close(r.r, x, {i})
    [] r.k = "plus"  -> Close(r.r, x, Ends(r.r, x, i))
Close(r, x, S) == LET N == S \cup UNION {Ends(r, x, j) : j \in S} IN IF N = S THEN S ELSE Close(r, x, N)

(* regexec without REG_NOTBOL / REG_NOTEOL: the pattern is *searched* in x *)
MatchAst(ast, x) == \E i \in 0..Len(x) : Ends(ast, x, i) # {}
Match(p, x) == LET ast == Parse(p) IN ast.k # "undef" /\ MatchAst(ast, x)
Defined(p) == Parse(p).k # "undef"

(* ================================ 3. the enumerated space ====================================== *)
RECURSIVE StringsUpTo(_)
StringsUpTo(n) == IF n = 0 THEN {<<>>}
                  ELSE LET S == StringsUpTo(n - 1) IN S \cup {Append(s, t) : s \in {u \in S : Len(u) = n - 1}, t \in Tokens}
Strings == StringsUpTo(MaxLen)

VARIABLE strs          \* the vector given to generate_from_strings (order and repetitions as the API allows)
vars == <<strs>>
Init == strs = <<>>
Next == Len(strs) < MaxSet /\ \E s \in Strings : strs' = Append(strs, s)
Spec == Init /\ [][Next]_vars

(* generator configuration (CONSTRAINT): one JSON line per string of the space -- the exotic symbol names of the program campaign *)
EmitString == Len(strs) # 1 \/ PrintT(ToJson([s |-> strs[1]]))

(* "A string will match the resulting pattern regex, if and only if it was present in the vector." *)
GenFromStringsIsMembership ==
  LET ast == Parse(Gen(strs))
  IN /\ ast.k # "undef"
     /\ \A x \in Strings : MatchAst(ast, x) <=> x \in Range(strs)

(* sanity of the interpreter itself, independent of Escape: a pattern that is the escaped form (with *all* ERE      *)
(* specials escaped) of one string, anchored, matches that string and nothing else; unanchored it is a substring test *)
RECURSIVE EscapeAll(_)
EscapeAll(s) == IF s = <<>> THEN <<>>
                ELSE (IF Head(s) \in EreSpecials THEN <<BS, Head(s)>> ELSE <<Head(s)>>) \o EscapeAll(Tail(s))
IsInfix(s, x) == \E i \in 0..(Len(x) - Len(s)) : SubSeq(x, i + 1, i + Len(s)) = s
InterpreterSane ==
  Len(strs) = 1 =>
     LET anchored == Parse(<<"^">> \o EscapeAll(strs[1]) \o <<"$">>)
         searched == Parse(EscapeAll(strs[1]))
         nothing  == Parse(<<"^", "_", "^">>)
     IN /\ anchored.k # "undef" /\ searched.k # "undef" /\ nothing.k # "undef"
        /\ \A x \in Strings : MatchAst(anchored, x) <=> x = strs[1]
        /\ \A x \in Strings : MatchAst(searched, x) <=> IsInfix(strs[1], x)
        /\ \A x \in Strings : ~MatchAst(nothing, x)

(* "print the difference" for a weakened escape (binding demonstration, never false): which characters, left          *)
(* unescaped, change the outcome.  With EscSpecials = PinnedSpecials nothing is printed.                               *)
ForgottenCharacters ==
  Len(strs) = 1 /\ Len(strs[1]) <= 2 =>
     \A t \in EreSpecials \ EscSpecials :
        t \notin Range(strs[1]) \/ GenFromStringsIsMembership \/ PrintT(ToJson([forgotten |-> t, s |-> strs[1], pat |-> Gen(strs)]))
====================================================================================================
