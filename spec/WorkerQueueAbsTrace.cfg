\* trace validation: worker ids up to 64, any number of tasks; TRACE=<ndjson> in the environment, -workers 1.
CONSTANTS MaxWorkers = 64
          MaxTasks = 1000000
SPECIFICATION TSpec
INVARIANT Report
POSTCONDITION Accepted
CHECK_DEADLOCK FALSE
