CONSTANTS MaxWorkers = 64
          MaxTasks = 1000000
SPECIFICATION TSpec
INVARIANT Report
POSTCONDITION Accepted
CHECK_DEADLOCK FALSE
