---- MODULE Output_TTrace_1790037290 ----
EXTENDS Sequences, TLCExt, Toolbox, Output, Naturals, TLC

_expression ==
    LET Output_TEExpression == INSTANCE Output_TEExpression
    IN Output_TEExpression!expression
----

_trace ==
    LET Output_TETrace == INSTANCE Output_TETrace
    IN Output_TETrace!trace
----

_inv ==
    ~(
        TLCGet("level") = Len(_TETrace)
        /\
        exit = (1)
        /\
        pc = ("done")
        /\
        failAt = (1)
        /\
        streamBad = (TRUE)
        /\
        delivered = (0)
        /\
        k = (1)
        /\
        dest = ("stdout")
        /\
        tool = ("abidw")
        /\
        n = (1)
    )
----

_init ==
    /\ tool = _TETrace[1].tool
    /\ failAt = _TETrace[1].failAt
    /\ streamBad = _TETrace[1].streamBad
    /\ k = _TETrace[1].k
    /\ n = _TETrace[1].n
    /\ pc = _TETrace[1].pc
    /\ exit = _TETrace[1].exit
    /\ dest = _TETrace[1].dest
    /\ delivered = _TETrace[1].delivered
----

_next ==
    /\ \E i,j \in DOMAIN _TETrace:
        /\ \/ /\ j = i + 1
              /\ i = TLCGet("level")
        /\ tool  = _TETrace[i].tool
        /\ tool' = _TETrace[j].tool
        /\ failAt  = _TETrace[i].failAt
        /\ failAt' = _TETrace[j].failAt
        /\ streamBad  = _TETrace[i].streamBad
        /\ streamBad' = _TETrace[j].streamBad
        /\ k  = _TETrace[i].k
        /\ k' = _TETrace[j].k
        /\ n  = _TETrace[i].n
        /\ n' = _TETrace[j].n
        /\ pc  = _TETrace[i].pc
        /\ pc' = _TETrace[j].pc
        /\ exit  = _TETrace[i].exit
        /\ exit' = _TETrace[j].exit
        /\ dest  = _TETrace[i].dest
        /\ dest' = _TETrace[j].dest
        /\ delivered  = _TETrace[i].delivered
        /\ delivered' = _TETrace[j].delivered

\* Uncomment the ASSUME below to write the states of the error trace
\* to the given file in Json format. Note that you can pass any tuple
\* to `JsonSerialize`. For example, a sub-sequence of _TETrace.
    \* ASSUME
    \*     LET J == INSTANCE Json
    \*         IN J!JsonSerialize("Output_TTrace_1790037290.json", _TETrace)

=============================================================================

 Note that you can extract this module `Output_TEExpression`
  to a dedicated file to reuse `expression` (the module in the 
  dedicated `Output_TEExpression.tla` file takes precedence 
  over the module `Output_TEExpression` below).

---- MODULE Output_TEExpression ----
EXTENDS Sequences, TLCExt, Toolbox, Output, Naturals, TLC

expression == 
    [
        \* To hide variables of the `Output` spec from the error trace,
        \* remove the variables below.  The trace will be written in the order
        \* of the fields of this record.
        tool |-> tool
        ,failAt |-> failAt
        ,streamBad |-> streamBad
        ,k |-> k
        ,n |-> n
        ,pc |-> pc
        ,exit |-> exit
        ,dest |-> dest
        ,delivered |-> delivered
        
        \* Put additional constant-, state-, and action-level expressions here:
        \* ,_stateNumber |-> _TEPosition
        \* ,_toolUnchanged |-> tool = tool'
        
        \* Format the `tool` variable as Json value.
        \* ,_toolJson |->
        \*     LET J == INSTANCE Json
        \*     IN J!ToJson(tool)
        
        \* Lastly, you may build expressions over arbitrary sets of states by
        \* leveraging the _TETrace operator.  For example, this is how to
        \* count the number of times a spec variable changed up to the current
        \* state in the trace.
        \* ,_toolModCount |->
        \*     LET F[s \in DOMAIN _TETrace] ==
        \*         IF s = 1 THEN 0
        \*         ELSE IF _TETrace[s].tool # _TETrace[s-1].tool
        \*             THEN 1 + F[s-1] ELSE F[s-1]
        \*     IN F[_TEPosition - 1]
    ]

=============================================================================



Parsing and semantic processing can take forever if the trace below is long.
 In this case, it is advised to uncomment the module below to deserialize the
 trace from a generated binary file.

\*
\*---- MODULE Output_TETrace ----
\*EXTENDS IOUtils, Output, TLC
\*
\*trace == IODeserialize("Output_TTrace_1790037290.bin", TRUE)
\*
\*=============================================================================
\*

---- MODULE Output_TETrace ----
EXTENDS Output, TLC

trace == 
    <<
    ([exit |-> -1,pc |-> "writing",failAt |-> 1,streamBad |-> FALSE,delivered |-> 0,k |-> 0,dest |-> "stdout",tool |-> "abidw",n |-> 1]),
    ([exit |-> -1,pc |-> "writing",failAt |-> 1,streamBad |-> TRUE,delivered |-> 0,k |-> 1,dest |-> "stdout",tool |-> "abidw",n |-> 1]),
    ([exit |-> -1,pc |-> "closed",failAt |-> 1,streamBad |-> TRUE,delivered |-> 0,k |-> 1,dest |-> "stdout",tool |-> "abidw",n |-> 1]),
    ([exit |-> 1,pc |-> "done",failAt |-> 1,streamBad |-> TRUE,delivered |-> 0,k |-> 1,dest |-> "stdout",tool |-> "abidw",n |-> 1])
    >>
----


=============================================================================

---- CONFIG Output_TTrace_1790037290 ----
CONSTANTS
    MaxWrites = 6

INVARIANT
    _inv

CHECK_DEADLOCK
    \* CHECK_DEADLOCK off because of PROPERTY or INVARIANT above.
    FALSE

INIT
    _init

NEXT
    _next

CONSTANT
    _TETrace <- _trace

ALIAS
    _expression
=============================================================================
\* Generated on Tue Sep 22 00:35:03 UTC 2026