------------------------------------------- MODULE Reader -------------------------------------------
(* Loading an ABIXML document (src/abg-reader.cc) as a state machine over an abstract document, and   *)
(* the mutations of a document as actions.  Subject: C33 -- from EVERY mutated document the reader    *)
(* reaches `Loaded` or `Error`, never an abort / invalid access (LoadTotal), and it terminates         *)
(* (Progress + deadlock freedom).                                                                      *)
(*                                                                                                     *)
(* Abstract document: a header (the class of the `version` attribute of <abi-corpus>), a               *)
(* well-formedness bit (what libxml2 decides) and a sequence of top-level elements of <abi-instr>      *)
(*   [k: kind, id, nm, refs: sequence of referenced ids, num: class of the numeric attributes,          *)
(*    acc: class of the access attribute of the members, sym: class of elf-symbol-id]                    *)
(* kinds: basic = type-decl; ptr = pointer-type-def (registers its id BEFORE it resolves its type-id,   *)
(* as reference-type-def, function-type, class-decl, union-decl do); tdef = typedef-decl and            *)
(* array = array-type-def (resolve their type-id FIRST, register afterwards, as qualified-type-def,     *)
(* enum-decl, subrange do); class = class-decl whose refs are the type-ids of its data members;         *)
(* var = var-decl (type-id, elf-symbol-id); unknown = an element the reader has no handler for.         *)
(*                                                                                                     *)
(* The reader is transcribed at the granularity of its id resolution:                                   *)
(*   walk_xml_node_to_map_type_ids  IdNode(id): the FIRST element carrying that id (any element name)   *)
(*   m_types_map / key_type_decl    keyed[id]: the first type registered under the id                   *)
(*   m_xml_node_decl_map            built: the elements that have their IR node                         *)
(*   build_or_get_type_decl(id)     Resolve: registered -> done; else the element of the id is built on *)
(*                                  demand (forward reference), recursively: `stack`                    *)
(* and every place where the code asserts / aborts / indexes unchecked is an explicit AbortAt(site);    *)
(* site = the function that contains it.  FixedSites is the set of sites the tree under test has        *)
(* corrected: there the reader gives up with Error instead.  Reader.cfg states the corrected reader     *)
(* (FixedSites = Sites, LoadTotal holds); ReaderFaithful.cfg is the code as transcribed                 *)
(* (FixedSites = {}): EmitOutcomes enumerates the (mutation class -> outcome) pairs that exist.         *)
(*                                                                                                     *)
(* Mutation actions and the classes of render/xmlmut.py that render them on real documents:             *)
(*   Truncate(k)        truncate.closed (well-formed) / truncate.raw (cut inside markup: wf = FALSE)    *)
(*   DeleteElement(i)   delete.<element>                                                                *)
(*   DuplicateId(i,j)   dupid.same-kind, dupid.other-kind ; Clone(i): dupid.clone                       *)
(*   DanglingRef(i,r)   dangling.<ref attribute>                                                        *)
(*   Retarget(i,r,j)    misref.<ref attribute> (another kind, the own id, a cycle)                       *)
(*   Reorder(i,j)       reorder.siblings, reorder.sections                                              *)
(*   SetAttr(i,a,c)     attr.<attribute>.<missing|empty|non-numeric|negative|huge|wrong-enum>,          *)
(*                      attr.version.<n>-component                                                      *)
(*   Retag(i,k)         retag.type, retag.member, retag.unknown, retag.root                             *)
(*   ByteFlip(i)        byteflip.<region>                                                               *)
EXTENDS Naturals, Sequences, FiniteSets, TLC, Json

CONSTANTS MaxMuts,        \* number of mutations applied to a base document (0..MaxMuts)
          BaseDocs,       \* the base documents to start from (subset of 1..2)
          FixedSites      \* abort sites that are corrected in the tree under test

None == 0                 \* attribute absent or empty
Dangling == 9             \* an id that no element of the document carries
Ids == 1..5
Kinds == {"basic", "ptr", "tdef", "array", "class", "var", "unknown"}
TypeKinds == {"basic", "ptr", "tdef", "array", "class"}
KeyEarly == {"ptr", "class"}
NumClasses == {"missing", "empty", "non-numeric", "negative", "huge"}
VersionClasses == {"missing", "empty", "one-component", "zero-component", "three-component", "non-numeric"}

Sites == {"handle_version_attribute", "build_or_get_type_decl", "build_type_decl", "build_pointer_type_def", "build_typedef_decl",
          "build_array_type_def", "build_class_decl", "read_access", "recursion.reader", "recursion.ir"}
BuildFn(k) == CASE k = "basic" -> "build_type_decl" [] k = "ptr" -> "build_pointer_type_def" [] k = "tdef" -> "build_typedef_decl"
                [] k = "array" -> "build_array_type_def" [] k = "class" -> "build_class_decl" [] OTHER -> "build_or_get_type_decl"

El(k, id, refs) == [k |-> k, id |-> id, nm |-> id, refs |-> refs, num |-> "ok", acc |-> "ok", sym |-> "ok"]
(* base 1: forward reference (2 -> 4), recursion through a pointer (4 -> 2 -> 4), a typedef chain, an exported variable *)
(* base 2: array and typedef (both resolve before they register) under a pointer, a second basic type               *)
Base(b) == IF b = 1 THEN << El("basic", 1, <<>>), El("ptr", 2, <<4>>), El("tdef", 3, <<2>>), El("class", 4, <<1, 2>>), El("var", None, <<3>>) >>
           ELSE         << El("basic", 1, <<>>), El("array", 2, <<1>>), El("tdef", 3, <<2>>), El("ptr", 4, <<3>>), El("basic", 5, <<>>) >>

VARIABLES doc, wf, hdr, mlog,             \* the document and the mutation classes applied to it
          phase, pos, stack, keyed, built, out, steps
vars == <<doc, wf, hdr, mlog, phase, pos, stack, keyed, built, out, steps>>
rvars == <<phase, pos, stack, keyed, built, out, steps>>

NoKey == [k |-> "none", nm |-> None]
Elem == [k : Kinds, id : Ids \cup {None, Dangling}, nm : Ids \cup {None}, refs : Seq(Ids \cup {None, Dangling}),
         num : {"ok", "bad"}, acc : {"ok", "bad", "missing"}, sym : {"ok", "dangling", "missing"}]

TypeOK == /\ \A i \in 1..Len(doc) : doc[i].k \in Kinds /\ doc[i].id \in Ids \cup {None, Dangling} /\ Len(doc[i].refs) <= 2
          /\ Len(doc) <= 6 /\ wf \in BOOLEAN /\ hdr \in VersionClasses \cup {"ok"}
          /\ phase \in {"mutate", "header", "build", "post", "done"}
          /\ out.k \in {"none", "Loaded", "Error", "Abort"}
          /\ Len(mlog) <= MaxMuts

Init == /\ \E b \in BaseDocs : doc = Base(b)
        /\ wf = TRUE /\ hdr = "ok" /\ mlog = <<>>
        /\ phase = "mutate" /\ pos = 1 /\ stack = <<>> /\ keyed = [i \in Ids \cup {Dangling} |-> NoKey] /\ built = {}
        /\ out = [k |-> "none", fn |-> ""] /\ steps = 0

(* ------------------------------------------------------------------------------------------------- *)
(* Mutations                                                                                          *)
Log(c) == mlog' = Append(mlog, c)
Remove(s, i) == SubSeq(s, 1, i - 1) \o SubSeq(s, i + 1, Len(s))
Swap(s, i, j) == [s EXCEPT ![i] = s[j], ![j] = s[i]]
NRefs(e) == CASE e.k \in {"basic", "unknown"} -> 0 [] e.k = "class" -> Len(e.refs) [] OTHER -> 1
Target(e, r) == IF r <= Len(e.refs) THEN e.refs[r] ELSE None
SetRef(e, r, v) == IF r <= Len(e.refs) THEN [e EXCEPT !.refs[r] = v] ELSE [e EXCEPT !.refs = Append(e.refs, v)]

Truncate(k) == /\ k \in 0..(Len(doc) - 1) /\ doc' = SubSeq(doc, 1, k)
               /\ \/ wf' = wf /\ Log("Truncate.closed")
                  \/ wf' = FALSE /\ Log("Truncate.raw")
               /\ UNCHANGED hdr
DeleteElement(i) == doc' = Remove(doc, i) /\ Log("DeleteElement") /\ UNCHANGED <<wf, hdr>>
DuplicateId(i, j) == /\ i # j /\ doc[i].id \in Ids /\ doc[j].id \in Ids /\ doc[i].id # doc[j].id
                     /\ doc' = [doc EXCEPT ![j].id = doc[i].id]
                     /\ Log(IF doc[i].k = doc[j].k THEN "DuplicateId.same-kind" ELSE "DuplicateId.other-kind")
                     /\ UNCHANGED <<wf, hdr>>
Clone(i) == /\ Len(doc) < 6 /\ doc[i].k \in TypeKinds
            /\ \E at \in 0..Len(doc) : doc' = SubSeq(doc, 1, at) \o <<doc[i]>> \o SubSeq(doc, at + 1, Len(doc))
            /\ Log("DuplicateId.clone") /\ UNCHANGED <<wf, hdr>>
DanglingRef(i, r) == /\ r \in 1..NRefs(doc[i]) /\ Target(doc[i], r) # Dangling
                     /\ doc' = [doc EXCEPT ![i] = SetRef(doc[i], r, Dangling)] /\ Log("DanglingRef.type-id") /\ UNCHANGED <<wf, hdr>>
DanglingSym(i) == /\ doc[i].k = "var" /\ doc[i].sym = "ok" /\ doc' = [doc EXCEPT ![i].sym = "dangling"]
                  /\ Log("DanglingRef.elf-symbol-id") /\ UNCHANGED <<wf, hdr>>
Retarget(i, r, j) == /\ r \in 1..NRefs(doc[i]) /\ doc[j].id \in Ids /\ Target(doc[i], r) # doc[j].id
                     /\ doc' = [doc EXCEPT ![i] = SetRef(doc[i], r, doc[j].id)]
                     /\ Log(IF i = j THEN "Retarget.self" ELSE "Retarget.other") /\ UNCHANGED <<wf, hdr>>
Reorder(i, j) == i < j /\ doc' = Swap(doc, i, j) /\ Log("Reorder") /\ UNCHANGED <<wf, hdr>>
SetAttr(i) ==
  /\ UNCHANGED wf
  /\ \/ \E c \in {"missing", "empty"} : doc[i].id # None /\ doc' = [doc EXCEPT ![i].id = None] /\ Log("SetAttr.id." \o c) /\ UNCHANGED hdr
     \/ \E c \in {"missing", "empty"}, r \in 1..NRefs(doc[i]) :
           Target(doc[i], r) # None /\ doc' = [doc EXCEPT ![i] = SetRef(doc[i], r, None)] /\ Log("SetAttr.type-id." \o c) /\ UNCHANGED hdr
     \/ \E c \in NumClasses : doc[i].k \in TypeKinds /\ doc[i].num = "ok" /\ doc' = [doc EXCEPT ![i].num = "bad"] /\ Log("SetAttr.numeric." \o c) /\ UNCHANGED hdr
     \/ \E c \in {"empty", "wrong-enum"} : doc[i].k = "class" /\ doc[i].acc = "ok" /\ doc' = [doc EXCEPT ![i].acc = "bad"] /\ Log("SetAttr.access." \o c) /\ UNCHANGED hdr
     \/ doc[i].k = "class" /\ doc[i].acc = "ok" /\ doc' = [doc EXCEPT ![i].acc = "missing"] /\ Log("SetAttr.access.missing") /\ UNCHANGED hdr
     \/ doc[i].k = "var" /\ doc[i].sym = "ok" /\ doc' = [doc EXCEPT ![i].sym = "missing"] /\ Log("SetAttr.elf-symbol-id.missing") /\ UNCHANGED hdr
SetVersion == \E c \in VersionClasses : hdr = "ok" /\ hdr' = c /\ Log("SetAttr.version." \o c) /\ UNCHANGED <<doc, wf>>
Retag(i) == \E k \in Kinds : k # doc[i].k /\ doc' = [doc EXCEPT ![i].k = k]
                             /\ Log(IF k = "unknown" THEN "Retag.unknown" ELSE "Retag.type") /\ UNCHANGED <<wf, hdr>>
ByteFlip(i) == /\ Log("ByteFlip")
               /\ UNCHANGED hdr
               /\ \/ wf' = FALSE /\ UNCHANGED doc                                               \* markup destroyed
                  \/ wf' = wf /\ doc' = [doc EXCEPT ![i].k = "unknown"]                          \* a tag name changed
                  \/ wf' = wf /\ doc[i].id \in Ids /\ doc' = [doc EXCEPT ![i].id = Dangling]     \* an id value changed
                  \/ wf' = wf /\ NRefs(doc[i]) > 0 /\ doc' = [doc EXCEPT ![i] = SetRef(doc[i], 1, Dangling)]  \* a reference changed

Mutate == /\ phase = "mutate" /\ Len(mlog) < MaxMuts /\ UNCHANGED rvars
          /\ \/ \E k \in 0..5 : Truncate(k)
             \/ SetVersion
             \/ \E i \in 1..Len(doc) : \/ DeleteElement(i) \/ Clone(i) \/ DanglingSym(i) \/ SetAttr(i) \/ Retag(i) \/ ByteFlip(i)
                                       \/ \E j \in 1..Len(doc) : DuplicateId(i, j) \/ Reorder(i, j)
                                       \/ \E r \in 1..2 : DanglingRef(i, r) \/ \E j \in 1..Len(doc) : Retarget(i, r, j)
Start == phase = "mutate" /\ phase' = "header" /\ UNCHANGED <<doc, wf, hdr, mlog, pos, stack, keyed, built, out>> /\ steps' = 0

(* ------------------------------------------------------------------------------------------------- *)
(* The reader                                                                                          *)
Finish(o, fn) == phase' = "done" /\ out' = [k |-> o, fn |-> fn]
AbortAt(fn) == IF fn \in FixedSites THEN Finish("Error", fn) ELSE Finish("Abort", fn)

(* walk_xml_node_to_map_type_ids + map_id_and_node: the first element with the id, whatever its name *)
Carriers(id) == {i \in 1..Len(doc) : doc[i].id = id}
IdNode(id) == IF id \in Ids /\ Carriers(id) # {} THEN CHOOSE i \in Carriers(id) : \A j \in Carriers(id) : i <= j ELSE 0

Header ==      \* parse (libxml2) and read_corpus_from_input up to handle_version_attribute
  /\ phase = "header" /\ UNCHANGED <<doc, wf, hdr, mlog, pos, stack, keyed, built>> /\ steps' = steps + 1
  /\ IF ~wf THEN Finish("Error", "xml")
     ELSE IF hdr \in {"one-component", "zero-component"} THEN AbortAt("handle_version_attribute")      \* v[1] / v[0] of the split vector
     ELSE phase' = "build" /\ out' = out

Top == stack[Len(stack)]
PopFrame == /\ stack' = SubSeq(stack, 1, Len(stack) - 1)
            /\ pos' = IF Len(stack) = 1 THEN pos + 1 ELSE pos
SetPc(p) == stack' = [stack EXCEPT ![Len(stack)].pc = p] /\ pos' = pos
Key(e) == keyed' = IF keyed[e.id].k = "none" THEN [keyed EXCEPT ![e.id] = [k |-> e.k, nm |-> e.nm]] ELSE keyed

HandleNext ==   \* read_translation_unit: handle_element_node on the next child of abi-instr
  /\ phase = "build" /\ stack = <<>> /\ pos <= Len(doc)
  /\ stack' = <<[n |-> pos, pc |-> 0]>> /\ UNCHANGED <<pos, keyed, built, out, phase>>

Enter ==        \* build_<kind>(node) up to the point where it starts resolving references
  /\ phase = "build" /\ stack # <<>> /\ Top.pc = 0
  /\ LET n == Top.n
         e == doc[n]
         prev == IF e.id \in Ids \cup {Dangling} THEN keyed[e.id] ELSE NoKey
     IN IF e.k = "unknown"                                      \* no handler: null decl
          THEN IF Len(stack) > 1 THEN AbortAt("build_or_get_type_decl") /\ UNCHANGED <<stack, pos, keyed, built>>   \* ABG_ASSERT(t)
               ELSE PopFrame /\ UNCHANGED <<keyed, built, out, phase>>
        ELSE IF e.k = "var"
          THEN IF Len(stack) > 1 THEN AbortAt("build_or_get_type_decl") /\ UNCHANGED <<stack, pos, keyed, built>>   \* build_type gives null for a non-type element
               ELSE SetPc(1) /\ UNCHANGED <<keyed, built, out, phase>>
        ELSE IF n \in built THEN PopFrame /\ UNCHANGED <<keyed, built, out, phase>>                      \* get_decl_for_xml_node
        ELSE IF e.id = None THEN AbortAt(BuildFn(e.k)) /\ UNCHANGED <<stack, pos, keyed, built>>             \* ABG_ASSERT(!id.empty())
        ELSE IF e.k = "basic"
          THEN IF prev.k # "none"
                 THEN IF prev.k = "basic" /\ prev.nm = e.nm THEN PopFrame /\ UNCHANGED <<keyed, built, out, phase>>   \* "a type_decl would appear several times"
                      ELSE AbortAt("build_type_decl") /\ UNCHANGED <<stack, pos, keyed, built>>
                 ELSE Key(e) /\ built' = built \cup {n} /\ PopFrame /\ UNCHANGED <<out, phase>>
        ELSE IF e.k = "ptr"
          THEN IF prev.k # "none"
                 THEN IF prev.k = "ptr" THEN PopFrame /\ UNCHANGED <<keyed, built, out, phase>>
                      ELSE AbortAt("build_pointer_type_def") /\ UNCHANGED <<stack, pos, keyed, built>>
                 ELSE Key(e) /\ built' = built \cup {n} /\ SetPc(1) /\ UNCHANGED <<out, phase>>           \* keyed BEFORE the pointed-to type
        ELSE IF e.k \in {"tdef", "array"}
          THEN IF prev.k # "none"
                 THEN IF prev.k = e.k THEN PopFrame /\ UNCHANGED <<keyed, built, out, phase>>
                      ELSE AbortAt(BuildFn(e.k)) /\ UNCHANGED <<stack, pos, keyed, built>>
                 ELSE SetPc(1) /\ UNCHANGED <<keyed, built, out, phase>>                                 \* keyed AFTER the underlying type
        ELSE \* class
          IF prev.k \notin {"none", "class"} THEN AbortAt("build_class_decl") /\ UNCHANGED <<stack, pos, keyed, built>>
          ELSE IF e.acc = "bad" /\ Len(e.refs) > 0 THEN AbortAt("read_access") /\ UNCHANGED <<stack, pos, keyed, built>>   \* abort() on an unknown access
          ELSE Key(e) /\ built' = built \cup {n} /\ SetPc(1) /\ UNCHANGED <<out, phase>>

(* pushing element m again recurses for ever iff nothing between its frame and the top registers early *)
Endless(m) == \E p \in 1..Len(stack) : stack[p].n = m /\ \A q \in (p + 1)..Len(stack) : doc[stack[q].n].k \notin KeyEarly

Resolve ==      \* build_or_get_type_decl(type-id) for reference number pc of the element on top
  /\ phase = "build" /\ stack # <<>> /\ Top.pc >= 1 /\ Top.pc <= NRefs(doc[Top.n])
  /\ UNCHANGED <<keyed, built>>
  /\ LET e == doc[Top.n]
         t == Target(e, Top.pc)
         m == IdNode(t)
     IN IF t = None THEN AbortAt(IF e.k = "tdef" THEN "build_typedef_decl" ELSE "build_or_get_type_decl") /\ UNCHANGED <<stack, pos>>
        ELSE IF t \in Ids /\ keyed[t].k # "none" THEN SetPc(Top.pc + 1) /\ UNCHANGED <<out, phase>>
        ELSE IF m = 0 THEN AbortAt("build_or_get_type_decl") /\ UNCHANGED <<stack, pos>>                 \* ABG_ASSERT(n): no element has the id
        ELSE IF Endless(m) THEN AbortAt("recursion.reader") /\ UNCHANGED <<stack, pos>>                  \* stack exhaustion
        ELSE stack' = Append(stack, [n |-> m, pc |-> 0]) /\ UNCHANGED <<pos, out, phase>>

Complete ==     \* all references of the element on top are resolved
  /\ phase = "build" /\ stack # <<>> /\ Top.pc > NRefs(doc[Top.n]) /\ Top.pc >= 1
  /\ LET n == Top.n
         e == doc[n]
     IN IF e.k \in {"tdef", "array"}
          THEN /\ Key(e) /\ built' = built \cup {n}
               /\ IF e.k = "array" /\ e.num = "bad" THEN AbortAt("build_array_type_def") /\ UNCHANGED <<stack, pos>>   \* ABG_ASSERT_NOT_REACHED: size does not fit
                  ELSE PopFrame /\ UNCHANGED <<out, phase>>
          ELSE PopFrame /\ UNCHANGED <<keyed, built, out, phase>>

(* after the translation unit: canonicalization and naming walk the type graph; only named kinds stop a walk *)
PtrNext(n) == IF n # 0 /\ doc[n].k = "ptr" /\ Target(doc[n], 1) \in Ids THEN IdNode(Target(doc[n], 1)) ELSE 0
Iter(n, i) == LET F[k \in 0..i] == IF k = 0 THEN n ELSE PtrNext(F[k - 1]) IN F[i]
NameCycle == \E n \in built : doc[n].k = "ptr" /\ \E i \in 1..Len(doc) : Iter(n, i) = n

EndOfInput == /\ phase = "build" /\ stack = <<>> /\ pos > Len(doc)
              /\ phase' = "post" /\ UNCHANGED <<pos, stack, keyed, built, out>>
Post == /\ phase = "post" /\ UNCHANGED <<pos, stack, keyed, built>>
        /\ IF NameCycle THEN AbortAt("recursion.ir") ELSE Finish("Loaded", "")

Read == /\ UNCHANGED <<doc, wf, hdr, mlog>>
        /\ \/ Header
           \/ (HandleNext \/ Enter \/ Resolve \/ Complete \/ EndOfInput \/ Post) /\ steps' = steps + 1
Done == phase = "done" /\ UNCHANGED vars

Next == Mutate \/ Start \/ Read \/ Done
Spec == Init /\ [][Next]_vars

(* ------------------------------------------------------------------------------------------------- *)
(* Properties                                                                                          *)
LoadTotal == /\ out.k # "Abort"
             /\ phase = "done" => out.k \in {"Loaded", "Error"}
(* termination: the reader is deterministic, every non-final state has a step (deadlock check), and the number of   *)
(* steps is bounded: every element is entered at most once per element below it on the stack                      *)
StepBound == 8 + 6 * 6 * 4
Progress == steps <= StepBound
(* an ill-formed document is never loaded; a document nobody touched is *)
IllFormedIsError == (phase = "done" /\ ~wf) => out.k = "Error"
PristineLoads == (phase = "done" /\ mlog = <<>>) => out.k = "Loaded"
(* tolerated deviations of the transcribed reader: aborts only at the known sites *)
AbortOnlyAtSites == out.k = "Abort" => out.fn \in Sites \ FixedSites

(* enumeration of the (mutation classes -> outcome) pairs of the transcribed reader *)
EmitOutcomes == phase = "done" => PrintT(ToJson([m |-> mlog, k |-> out.k, fn |-> out.fn]))
=======================================================================================================
