------------------------------------------ MODULE IniTrace ------------------------------------------
(* Trace validation of abigail::ini::read_config / write_config (C39; C25, INI part).  Events are     *)
(* recorded by harness/ini.cc, one per call sequence:                                                  *)
(*   Parse      text -> ok, cfg                       read_config on the text                          *)
(*   RoundTrip  text -> cfg1, ptoks, cfg2             read_config, write_config, read_config           *)
(*   PrintParse cfg  -> ptoks, cfg2                   configuration built through the API, written, read *)
(* each with ret = "ok" when the calls returned, otherwise how the process died.                        *)
(*                                                                                                      *)
(* This module EXTENDS Ini with Fixes = AllFixes (the specification: all three properties hold) and     *)
(* instantiates it a second time as Pinned with Fixes = {} (the transcription of the pinned tree).     *)
(* Verdicts:                                                                                            *)
(*   any event     ret # "ok"                            -> bad:crash-<ret>-model-<what Pinned predicts> *)
(*   Parse         cfg is neither transcription's result -> bad:parse-drift  (equal to either is ok: a    *)
(*                 tree may read like the pinned code or like the repaired code; what C39 demands of     *)
(*                 what was read is judged by the RoundTrip event of the same text)                      *)
(*   RoundTrip     cfg2 # cfg1 (or a read returned nil)  -> bad:roundtrip-<class of cfg1>                 *)
(*                 ptoks is neither transcription's text -> bad:print-drift                               *)
(*   PrintParse    cfg2 # cfg                            -> bad:printparse                                *)
EXTENDS Ini, Json, IOUtils, KnownFindings

Pinned == INSTANCE Ini WITH Fixes <- {}
(* the tree as it is now: the three repairs that were committed as "fix:" (null value, trailing backslash, end of line after a *)
(* continuation); the two remaining deviations are known findings and are recognised only when the observed second read is    *)
(* exactly what this transcription predicts for that configuration.                                                             *)
Current == INSTANCE Ini WITH Fixes <- {"nullcheck", "bufgood", "eol"}
SE == INSTANCE SequencesExt

(* the explored space, printed once per run so that the harness enumerates exactly what TLC enumerates *)
ASSUME PrintT(ToJson([alphabet |-> SE!SetToSeq(Alphabet), prefix |-> Prefix, maxlen |-> MaxLen]))

T == ndJsonDeserialize(IOEnv.TRACE)
VARIABLES l, verdict

(* what the transcription of the pinned tree predicts for a text whose run did not return *)
Predicted(t) ==
  LET p1 == Pinned!Parse(t) IN
  IF p1.st # "Done" THEN p1.st
  ELSE LET p2 == Pinned!Parse(Pinned!PrintCfg(p1.cfg)) IN IF p2.st # "Done" THEN "reread-" \o p2.st ELSE "none"
CrashVerdict(ev, t) == "bad:crash-" \o ev.ret \o "-model-" \o Predicted(t)

(* why a configuration cannot survive the pinned writer (classification only; any cfg2 # cfg1 is bad) *)
RECURSIVE ValAdjacent(_), ValNewline(_)
ValAdjacent(v) == v.k = "tuple" /\ \E i \in 1..Len(v.items) : ValAdjacent(v.items[i]) \/ (i > 1 /\ IsFlat(v.items[i-1]) /\ IsFlat(v.items[i]))
ValNewline(v) == \/ v.k = "str" /\ HasTok(v.s, {"\n"})
                 \/ v.k = "list" /\ \E i \in 1..Len(v.strs) : HasTok(v.strs[i], {"\n"})
                 \/ v.k = "tuple" /\ \E i \in 1..Len(v.items) : ValNewline(v.items[i])
AnyValue(cfg, P(_)) == \E i \in 1..Len(cfg) : \E j \in 1..Len(cfg[i].props) : P(cfg[i].props[j].v)
ClassOf(cfg) == IF AnyValue(cfg, ValNewline) THEN "newline-in-value"
                ELSE IF AnyValue(cfg, ValAdjacent) THEN "tuple-items-merged"
                ELSE IF ~CfgPlain(cfg) THEN "not-reescaped"
                ELSE "other"

Verdict(ev) ==
  IF ev.e = "Parse" THEN
    IF ev.ret # "ok" THEN CrashVerdict(ev, ev.text)
    ELSE IF ~ev.ok THEN "bad:parse-drift"
    ELSE IF [st |-> "Done", cfg |-> ev.cfg] = Parse(ev.text) THEN "ok"             \* (the second transcription is
    ELSE IF [st |-> "Done", cfg |-> ev.cfg] = Current!Parse(ev.text) THEN "ok"     \*  evaluated only when needed; Current = the
    ELSE IF [st |-> "Done", cfg |-> ev.cfg] = Pinned!Parse(ev.text) THEN "ok"      \*  tree with the three committed repairs)
    ELSE "bad:parse-drift"
  ELSE IF ev.e = "RoundTrip" THEN
    IF ev.ret # "ok" THEN CrashVerdict(ev, ev.text)
    ELSE IF ~ev.ok1 \/ ~ev.ok2 \/ ev.cfg2 # ev.cfg1
         THEN (IF ev.ok1 /\ KF_C39_listed /\ ClassOf(ev.cfg1) \in {"not-reescaped", "tuple-items-merged"}
                  /\ (LET p == Current!Parse(Current!PrintCfg(ev.cfg1)) IN
                        (p.st = "Done" /\ ev.ok2 /\ p.cfg = ev.cfg2) \/ (p.st # "Done" /\ ~ev.ok2))
               THEN "kf:C39-" \o ClassOf(ev.cfg1)
               ELSE "bad:roundtrip-" \o ClassOf(ev.cfg1))
    ELSE IF ev.ptoks = PrintCfg(ev.cfg1) THEN "ok"
    ELSE IF ev.ptoks = Current!PrintCfg(ev.cfg1) THEN "ok"
    ELSE IF ev.ptoks = Pinned!PrintCfg(ev.cfg1) THEN "ok"
    ELSE "bad:print-drift"
  ELSE
    IF ev.ret # "ok" THEN "bad:crash-" \o ev.ret \o "-printparse"
    ELSE IF ~DocCfg(ev.cfg) THEN "bad:case-outside-documented-configurations"
    ELSE IF ~ev.ok2 \/ ev.cfg2 # ev.cfg THEN "bad:printparse"
    ELSE IF ev.ptoks = PrintCfg(ev.cfg) THEN "ok"
    ELSE IF ev.ptoks = Pinned!PrintCfg(ev.cfg) THEN "ok"
    ELSE "bad:print-drift"

TInit == l = 1 /\ verdict = "ok" /\ text = <<>> /\ conf = <<>>
TStep == /\ T[l].e \in {"Parse", "RoundTrip", "PrintParse"}
         /\ text' = (IF T[l].e = "PrintParse" THEN <<>> ELSE T[l].text)
         /\ conf' = (IF T[l].e = "PrintParse" THEN T[l].cfg ELSE <<>>)
         /\ verdict' = Verdict(T[l])
TNext == l <= Len(T) /\ l' = l + 1 /\ TStep
TSpec == TInit /\ [][TNext]_<<text, conf, l, verdict>>

Report == verdict = "ok" \/ PrintT(ToJson([i |-> l - 1, v |-> verdict]))
Accepted == TLCGet("stats").diameter - 1 = Len(T)

(* ---- model checking of the two transcriptions against each other (IniRepairs.cfg; no trace is read) ---- *)
RSpec == Init /\ l = 0 /\ verdict = "ok" /\ [][Grow /\ UNCHANGED <<l, verdict>>]_<<text, conf, l, verdict>>
(* the documented configurations, each printed as one JSON case for the harness (IniConfigs.cfg)          *)
CSpec == InitC /\ l = 0 /\ verdict = "ok" /\ [][FALSE]_<<text, conf, l, verdict>>
EmitConf == PrintT(ToJson(conf))
PrintParsePinned == Pinned!PrintParseOf(conf)     \* the pinned tree, too, reads back what it wrote for a documented configuration
(* the restricted properties the pinned transcription satisfies (Ini.tla, D1-D5) *)
PinnedRestricted == Pinned!TotalPinned(text) /\ Pinned!RoundTripPlain(text) /\ Pinned!NoEscapeTotal(text)
(* ParseTotal, NeverRejects, ReadWriteRead and PinnedRestricted in one invariant that reads the text once per         *)
(* transcription (the check uses it for speed; a violation is diagnosed with the separate invariants).  The repairs    *)
(* are not conservative: s]x={x\<nl><nl>\} reads as nothing on the pinned tree (the string swallows the newline and the *)
(* escaped brace) and as the tuple {x} with the repairs.                                                                *)
Combined ==
  LET pf == Parse(text)
      pp == Pinned!Parse(text)
      rf == IF pf.st = "Done" THEN Parse(PrintCfg(pf.cfg)) ELSE pf
      rp == IF pp.st = "Done" THEN Pinned!Parse(Pinned!PrintCfg(pp.cfg)) ELSE pp
      pinnedRT == rp.st = "Done" /\ rp.cfg = pp.cfg
  IN /\ pf.st = "Done"                                                   \* ParseTotal, NeverRejects
     /\ rf.st = "Done" /\ rf.cfg = pf.cfg                                \* ReadWriteRead
     /\ pp.st \in {"Done", "NullDeref", "Abort"}                         \* PinnedRestricted ...
     /\ (pp.st = "Done" /\ CfgPlain(pp.cfg)) => pinnedRT
     /\ pp.st = "Abort" => HasTok(text, {"\\"})
=======================================================================================================
