---- MODULE WorkerQueue_TTrace_1790037063 ----
EXTENDS Sequences, WorkerQueue, TLCExt, Toolbox, Naturals, TLC

_expression ==
    LET WorkerQueue_TEExpression == INSTANCE WorkerQueue_TEExpression
    IN WorkerQueue_TEExpression!expression
----

_trace ==
    LET WorkerQueue_TETrace == INSTANCE WorkerQueue_TETrace
    IN WorkerQueue_TETrace!trace
----

_inv ==
    ~(
        TLCGet("level") = Len(_TETrace)
        /\
        drop = (<<FALSE, TRUE>>)
        /\
        cur = (<<0, 0>>)
        /\
        nt = (0)
        /\
        joined = (0)
        /\
        notified = (<<>>)
        /\
        nw = (2)
        /\
        sleepers = ([todoc |-> {1}, donec |-> {}])
        /\
        done = (<<>>)
        /\
        down = (TRUE)
        /\
        performed = (<<>>)
        /\
        spur = (1)
        /\
        mtx = ([todo |-> -1, done |-> -1])
        /\
        todo = (<<>>)
        /\
        nsched = (0)
        /\
        pc = ((0 :> "m_join" @@ 1 :> "w_woken" @@ 2 :> "w_exited"))
    )
----

_init ==
    /\ done = _TETrace[1].done
    /\ nsched = _TETrace[1].nsched
    /\ cur = _TETrace[1].cur
    /\ mtx = _TETrace[1].mtx
    /\ nt = _TETrace[1].nt
    /\ nw = _TETrace[1].nw
    /\ pc = _TETrace[1].pc
    /\ drop = _TETrace[1].drop
    /\ joined = _TETrace[1].joined
    /\ todo = _TETrace[1].todo
    /\ down = _TETrace[1].down
    /\ spur = _TETrace[1].spur
    /\ notified = _TETrace[1].notified
    /\ performed = _TETrace[1].performed
    /\ sleepers = _TETrace[1].sleepers
----

_next ==
    /\ \E i,j \in DOMAIN _TETrace:
        /\ \/ /\ j = i + 1
              /\ i = TLCGet("level")
        /\ done  = _TETrace[i].done
        /\ done' = _TETrace[j].done
        /\ nsched  = _TETrace[i].nsched
        /\ nsched' = _TETrace[j].nsched
        /\ cur  = _TETrace[i].cur
        /\ cur' = _TETrace[j].cur
        /\ mtx  = _TETrace[i].mtx
        /\ mtx' = _TETrace[j].mtx
        /\ nt  = _TETrace[i].nt
        /\ nt' = _TETrace[j].nt
        /\ nw  = _TETrace[i].nw
        /\ nw' = _TETrace[j].nw
        /\ pc  = _TETrace[i].pc
        /\ pc' = _TETrace[j].pc
        /\ drop  = _TETrace[i].drop
        /\ drop' = _TETrace[j].drop
        /\ joined  = _TETrace[i].joined
        /\ joined' = _TETrace[j].joined
        /\ todo  = _TETrace[i].todo
        /\ todo' = _TETrace[j].todo
        /\ down  = _TETrace[i].down
        /\ down' = _TETrace[j].down
        /\ spur  = _TETrace[i].spur
        /\ spur' = _TETrace[j].spur
        /\ notified  = _TETrace[i].notified
        /\ notified' = _TETrace[j].notified
        /\ performed  = _TETrace[i].performed
        /\ performed' = _TETrace[j].performed
        /\ sleepers  = _TETrace[i].sleepers
        /\ sleepers' = _TETrace[j].sleepers

\* Uncomment the ASSUME below to write the states of the error trace
\* to the given file in Json format. Note that you can pass any tuple
\* to `JsonSerialize`. For example, a sub-sequence of _TETrace.
    \* ASSUME
    \*     LET J == INSTANCE Json
    \*         IN J!JsonSerialize("WorkerQueue_TTrace_1790037063.json", _TETrace)

=============================================================================

 Note that you can extract this module `WorkerQueue_TEExpression`
  to a dedicated file to reuse `expression` (the module in the 
  dedicated `WorkerQueue_TEExpression.tla` file takes precedence 
  over the module `WorkerQueue_TEExpression` below).

---- MODULE WorkerQueue_TEExpression ----
EXTENDS Sequences, WorkerQueue, TLCExt, Toolbox, Naturals, TLC

expression == 
    [
        \* To hide variables of the `WorkerQueue` spec from the error trace,
        \* remove the variables below.  The trace will be written in the order
        \* of the fields of this record.
        done |-> done
        ,nsched |-> nsched
        ,cur |-> cur
        ,mtx |-> mtx
        ,nt |-> nt
        ,nw |-> nw
        ,pc |-> pc
        ,drop |-> drop
        ,joined |-> joined
        ,todo |-> todo
        ,down |-> down
        ,spur |-> spur
        ,notified |-> notified
        ,performed |-> performed
        ,sleepers |-> sleepers
        
        \* Put additional constant-, state-, and action-level expressions here:
        \* ,_stateNumber |-> _TEPosition
        \* ,_doneUnchanged |-> done = done'
        
        \* Format the `done` variable as Json value.
        \* ,_doneJson |->
        \*     LET J == INSTANCE Json
        \*     IN J!ToJson(done)
        
        \* Lastly, you may build expressions over arbitrary sets of states by
        \* leveraging the _TETrace operator.  For example, this is how to
        \* count the number of times a spec variable changed up to the current
        \* state in the trace.
        \* ,_doneModCount |->
        \*     LET F[s \in DOMAIN _TETrace] ==
        \*         IF s = 1 THEN 0
        \*         ELSE IF _TETrace[s].done # _TETrace[s-1].done
        \*             THEN 1 + F[s-1] ELSE F[s-1]
        \*     IN F[_TEPosition - 1]
    ]

=============================================================================



Parsing and semantic processing can take forever if the trace below is long.
 In this case, it is advised to uncomment the module below to deserialize the
 trace from a generated binary file.

\*
\*---- MODULE WorkerQueue_TETrace ----
\*EXTENDS IOUtils, WorkerQueue, TLC
\*
\*trace == IODeserialize("WorkerQueue_TTrace_1790037063.bin", TRUE)
\*
\*=============================================================================
\*

---- MODULE WorkerQueue_TETrace ----
EXTENDS WorkerQueue, TLC

trace == 
    <<
    ([drop |-> <<FALSE, FALSE>>,cur |-> <<0, 0>>,nt |-> 0,joined |-> 0,notified |-> <<>>,nw |-> 2,sleepers |-> [todoc |-> {}, donec |-> {}],done |-> <<>>,down |-> FALSE,performed |-> <<>>,spur |-> 0,mtx |-> [todo |-> -1, done |-> -1],todo |-> <<>>,nsched |-> 0,pc |-> (0 :> "m_d_lock" @@ 1 :> "w_lock" @@ 2 :> "w_lock")]),
    ([drop |-> <<FALSE, FALSE>>,cur |-> <<0, 0>>,nt |-> 0,joined |-> 0,notified |-> <<>>,nw |-> 2,sleepers |-> [todoc |-> {}, donec |-> {}],done |-> <<>>,down |-> FALSE,performed |-> <<>>,spur |-> 0,mtx |-> [todo |-> 1, done |-> -1],todo |-> <<>>,nsched |-> 0,pc |-> (0 :> "m_d_lock" @@ 1 :> "w_test" @@ 2 :> "w_lock")]),
    ([drop |-> <<FALSE, FALSE>>,cur |-> <<0, 0>>,nt |-> 0,joined |-> 0,notified |-> <<>>,nw |-> 2,sleepers |-> [todoc |-> {}, donec |-> {}],done |-> <<>>,down |-> FALSE,performed |-> <<>>,spur |-> 0,mtx |-> [todo |-> 1, done |-> -1],todo |-> <<>>,nsched |-> 0,pc |-> (0 :> "m_d_lock" @@ 1 :> "w_wait" @@ 2 :> "w_lock")]),
    ([drop |-> <<FALSE, FALSE>>,cur |-> <<0, 0>>,nt |-> 0,joined |-> 0,notified |-> <<>>,nw |-> 2,sleepers |-> [todoc |-> {1}, donec |-> {}],done |-> <<>>,down |-> FALSE,performed |-> <<>>,spur |-> 0,mtx |-> [todo |-> -1, done |-> -1],todo |-> <<>>,nsched |-> 0,pc |-> (0 :> "m_d_lock" @@ 1 :> "w_woken" @@ 2 :> "w_lock")]),
    ([drop |-> <<FALSE, FALSE>>,cur |-> <<0, 0>>,nt |-> 0,joined |-> 0,notified |-> <<>>,nw |-> 2,sleepers |-> [todoc |-> {1}, donec |-> {}],done |-> <<>>,down |-> FALSE,performed |-> <<>>,spur |-> 0,mtx |-> [todo |-> 2, done |-> -1],todo |-> <<>>,nsched |-> 0,pc |-> (0 :> "m_d_lock" @@ 1 :> "w_woken" @@ 2 :> "w_test")]),
    ([drop |-> <<FALSE, FALSE>>,cur |-> <<0, 0>>,nt |-> 0,joined |-> 0,notified |-> <<>>,nw |-> 2,sleepers |-> [todoc |-> {1}, donec |-> {}],done |-> <<>>,down |-> FALSE,performed |-> <<>>,spur |-> 0,mtx |-> [todo |-> 2, done |-> -1],todo |-> <<>>,nsched |-> 0,pc |-> (0 :> "m_d_lock" @@ 1 :> "w_woken" @@ 2 :> "w_wait")]),
    ([drop |-> <<FALSE, FALSE>>,cur |-> <<0, 0>>,nt |-> 0,joined |-> 0,notified |-> <<>>,nw |-> 2,sleepers |-> [todoc |-> {}, donec |-> {}],done |-> <<>>,down |-> FALSE,performed |-> <<>>,spur |-> 1,mtx |-> [todo |-> 2, done |-> -1],todo |-> <<>>,nsched |-> 0,pc |-> (0 :> "m_d_lock" @@ 1 :> "w_woken" @@ 2 :> "w_wait")]),
    ([drop |-> <<FALSE, FALSE>>,cur |-> <<0, 0>>,nt |-> 0,joined |-> 0,notified |-> <<>>,nw |-> 2,sleepers |-> [todoc |-> {2}, donec |-> {}],done |-> <<>>,down |-> FALSE,performed |-> <<>>,spur |-> 1,mtx |-> [todo |-> -1, done |-> -1],todo |-> <<>>,nsched |-> 0,pc |-> (0 :> "m_d_lock" @@ 1 :> "w_woken" @@ 2 :> "w_woken")]),
    ([drop |-> <<FALSE, FALSE>>,cur |-> <<0, 0>>,nt |-> 0,joined |-> 0,notified |-> <<>>,nw |-> 2,sleepers |-> [todoc |-> {2}, donec |-> {}],done |-> <<>>,down |-> FALSE,performed |-> <<>>,spur |-> 1,mtx |-> [todo |-> 1, done |-> -1],todo |-> <<>>,nsched |-> 0,pc |-> (0 :> "m_d_lock" @@ 1 :> "w_test" @@ 2 :> "w_woken")]),
    ([drop |-> <<FALSE, FALSE>>,cur |-> <<0, 0>>,nt |-> 0,joined |-> 0,notified |-> <<>>,nw |-> 2,sleepers |-> [todoc |-> {2}, donec |-> {}],done |-> <<>>,down |-> FALSE,performed |-> <<>>,spur |-> 1,mtx |-> [todo |-> 1, done |-> -1],todo |-> <<>>,nsched |-> 0,pc |-> (0 :> "m_d_lock" @@ 1 :> "w_wait" @@ 2 :> "w_woken")]),
    ([drop |-> <<FALSE, FALSE>>,cur |-> <<0, 0>>,nt |-> 0,joined |-> 0,notified |-> <<>>,nw |-> 2,sleepers |-> [todoc |-> {1, 2}, donec |-> {}],done |-> <<>>,down |-> FALSE,performed |-> <<>>,spur |-> 1,mtx |-> [todo |-> -1, done |-> -1],todo |-> <<>>,nsched |-> 0,pc |-> (0 :> "m_d_lock" @@ 1 :> "w_woken" @@ 2 :> "w_woken")]),
    ([drop |-> <<FALSE, FALSE>>,cur |-> <<0, 0>>,nt |-> 0,joined |-> 0,notified |-> <<>>,nw |-> 2,sleepers |-> [todoc |-> {1, 2}, donec |-> {}],done |-> <<>>,down |-> FALSE,performed |-> <<>>,spur |-> 1,mtx |-> [todo |-> 0, done |-> -1],todo |-> <<>>,nsched |-> 0,pc |-> (0 :> "m_d_test" @@ 1 :> "w_woken" @@ 2 :> "w_woken")]),
    ([drop |-> <<FALSE, FALSE>>,cur |-> <<0, 0>>,nt |-> 0,joined |-> 0,notified |-> <<>>,nw |-> 2,sleepers |-> [todoc |-> {1, 2}, donec |-> {}],done |-> <<>>,down |-> FALSE,performed |-> <<>>,spur |-> 1,mtx |-> [todo |-> 0, done |-> -1],todo |-> <<>>,nsched |-> 0,pc |-> (0 :> "m_d_set" @@ 1 :> "w_woken" @@ 2 :> "w_woken")]),
    ([drop |-> <<FALSE, FALSE>>,cur |-> <<0, 0>>,nt |-> 0,joined |-> 0,notified |-> <<>>,nw |-> 2,sleepers |-> [todoc |-> {1, 2}, donec |-> {}],done |-> <<>>,down |-> TRUE,performed |-> <<>>,spur |-> 1,mtx |-> [todo |-> 0, done |-> -1],todo |-> <<>>,nsched |-> 0,pc |-> (0 :> "m_d_unlock" @@ 1 :> "w_woken" @@ 2 :> "w_woken")]),
    ([drop |-> <<FALSE, FALSE>>,cur |-> <<0, 0>>,nt |-> 0,joined |-> 0,notified |-> <<>>,nw |-> 2,sleepers |-> [todoc |-> {1, 2}, donec |-> {}],done |-> <<>>,down |-> TRUE,performed |-> <<>>,spur |-> 1,mtx |-> [todo |-> -1, done |-> -1],todo |-> <<>>,nsched |-> 0,pc |-> (0 :> "m_d_wake" @@ 1 :> "w_woken" @@ 2 :> "w_woken")]),
    ([drop |-> <<FALSE, FALSE>>,cur |-> <<0, 0>>,nt |-> 0,joined |-> 0,notified |-> <<>>,nw |-> 2,sleepers |-> [todoc |-> {1}, donec |-> {}],done |-> <<>>,down |-> TRUE,performed |-> <<>>,spur |-> 1,mtx |-> [todo |-> -1, done |-> -1],todo |-> <<>>,nsched |-> 0,pc |-> (0 :> "m_join" @@ 1 :> "w_woken" @@ 2 :> "w_woken")]),
    ([drop |-> <<FALSE, FALSE>>,cur |-> <<0, 0>>,nt |-> 0,joined |-> 0,notified |-> <<>>,nw |-> 2,sleepers |-> [todoc |-> {1}, donec |-> {}],done |-> <<>>,down |-> TRUE,performed |-> <<>>,spur |-> 1,mtx |-> [todo |-> 2, done |-> -1],todo |-> <<>>,nsched |-> 0,pc |-> (0 :> "m_join" @@ 1 :> "w_woken" @@ 2 :> "w_test")]),
    ([drop |-> <<FALSE, FALSE>>,cur |-> <<0, 0>>,nt |-> 0,joined |-> 0,notified |-> <<>>,nw |-> 2,sleepers |-> [todoc |-> {1}, donec |-> {}],done |-> <<>>,down |-> TRUE,performed |-> <<>>,spur |-> 1,mtx |-> [todo |-> 2, done |-> -1],todo |-> <<>>,nsched |-> 0,pc |-> (0 :> "m_join" @@ 1 :> "w_woken" @@ 2 :> "w_take")]),
    ([drop |-> <<FALSE, FALSE>>,cur |-> <<0, 0>>,nt |-> 0,joined |-> 0,notified |-> <<>>,nw |-> 2,sleepers |-> [todoc |-> {1}, donec |-> {}],done |-> <<>>,down |-> TRUE,performed |-> <<>>,spur |-> 1,mtx |-> [todo |-> 2, done |-> -1],todo |-> <<>>,nsched |-> 0,pc |-> (0 :> "m_join" @@ 1 :> "w_woken" @@ 2 :> "w_unlock")]),
    ([drop |-> <<FALSE, FALSE>>,cur |-> <<0, 0>>,nt |-> 0,joined |-> 0,notified |-> <<>>,nw |-> 2,sleepers |-> [todoc |-> {1}, donec |-> {}],done |-> <<>>,down |-> TRUE,performed |-> <<>>,spur |-> 1,mtx |-> [todo |-> -1, done |-> -1],todo |-> <<>>,nsched |-> 0,pc |-> (0 :> "m_join" @@ 1 :> "w_woken" @@ 2 :> "w_lock2")]),
    ([drop |-> <<FALSE, FALSE>>,cur |-> <<0, 0>>,nt |-> 0,joined |-> 0,notified |-> <<>>,nw |-> 2,sleepers |-> [todoc |-> {1}, donec |-> {}],done |-> <<>>,down |-> TRUE,performed |-> <<>>,spur |-> 1,mtx |-> [todo |-> 2, done |-> -1],todo |-> <<>>,nsched |-> 0,pc |-> (0 :> "m_join" @@ 1 :> "w_woken" @@ 2 :> "w_read")]),
    ([drop |-> <<FALSE, TRUE>>,cur |-> <<0, 0>>,nt |-> 0,joined |-> 0,notified |-> <<>>,nw |-> 2,sleepers |-> [todoc |-> {1}, donec |-> {}],done |-> <<>>,down |-> TRUE,performed |-> <<>>,spur |-> 1,mtx |-> [todo |-> 2, done |-> -1],todo |-> <<>>,nsched |-> 0,pc |-> (0 :> "m_join" @@ 1 :> "w_woken" @@ 2 :> "w_unlock2")]),
    ([drop |-> <<FALSE, TRUE>>,cur |-> <<0, 0>>,nt |-> 0,joined |-> 0,notified |-> <<>>,nw |-> 2,sleepers |-> [todoc |-> {1}, donec |-> {}],done |-> <<>>,down |-> TRUE,performed |-> <<>>,spur |-> 1,mtx |-> [todo |-> -1, done |-> -1],todo |-> <<>>,nsched |-> 0,pc |-> (0 :> "m_join" @@ 1 :> "w_woken" @@ 2 :> "w_exited")])
    >>
----


=============================================================================

---- CONFIG WorkerQueue_TTrace_1790037063 ----
CONSTANTS
    MaxWorkers = 2
    MaxTasks = 2
    MaxSpurious = 1
    MutDownWake = "signal"
    MutWaitLoop = "while"
    MutDoneLocked = TRUE

INVARIANT
    _inv

CHECK_DEADLOCK
    \* CHECK_DEADLOCK off because of PROPERTY or INVARIANT above.
    FALSE

INIT
    _init

NEXT
    _next

CONSTANT
    _TETrace <- _trace

ALIAS
    _expression
=============================================================================
\* Generated on Tue Sep 22 00:31:29 UTC 2026