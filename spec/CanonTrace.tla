---------------------------------------- MODULE CanonTrace ----------------------------------------
(* Trace validation for C20 (type canonicalization agrees with structural equality).                          *)
(*                                                                                                          *)
(* One execution = the loading of one binary / ABIXML document by harness/irdump.cc:                         *)
(*   {"e":"Reset"}                                                                                           *)
(*   {"e":"Dump", "case":.., "types":[T...], "roots":[positions reachable from an exported interface]}        *)
(*        T = [k, sig, kids, canon, decl, def, skip]; type references are positions in `types`               *)
(*   H5 events of that same loading (only when /repo carries hook H5), in order:                             *)
(*        CanonBegin / Compare / Propagate / Track / Confirm / Cancel / CanonAlias / CanonEnd                *)
(*        t, c = the hook's type numbers, tp, cp = the positions of those types in the dump (0: not dumped)   *)
(*   {"e":"Final", "canon":[[t, c]...]}   hook numbers of every dumped type and of its canonical type          *)
(* and, from the `dbgcanon` build (the library's own checks named by C20):                                    *)
(*   {"e":"DebugRun", "mode":"tc"|"abidiff", "exit":.., "sig":.., "ret":.., and the number of error-stream    *)
(*    lines of each kind the library prints: tcDiffers, errFnType, errTypeId, errOther}                        *)
(*                                                                                                          *)
(* Dump (stateless): structural equality is recomputed here as the greatest bisimulation over what the        *)
(* harness recorded of every type (sig = all local attributes equals() compares, kids = the sub-types it       *)
(* recurses into; a resolved declaration-only class stands for its definition, as in class_decl::operator==).  *)
(* Guard: for all pairs of dumped types that carry a canonical type and whose equality the projection can      *)
(* decide (no `skip` type reachable):  same canonical type <=> structurally equal;  and every type reachable    *)
(* from an exported interface that is not declaration-only / void / variadic has a canonical type.            *)
(*                                                                                                          *)
(* H5 events (stateful): each event must be a step of Canon.tla's algorithm on the state reconstructed from    *)
(* the previous events -- Propagate gives a type without canonical type the canonical type of its source,      *)
(* Track / Confirm / Cancel move it through the non-confirmed set, the result of every top-level Compare       *)
(* equals structural equality of the two dumped types (the check `abidw --debug-tc` approximates),              *)
(* CanonEnd's canonical type is the candidate that compared equal, or the type itself -- and the state reached   *)
(* at the end equals the canonical numbers of the dump (Final).                                                *)
EXTENDS Naturals, Integers, Sequences, FiniteSets, TLC, Json, IOUtils

T == ndJsonDeserialize(IOEnv.TRACE)
VARIABLES l, verdict,
          dump,      \* the types of the current execution (<<>> before the first Dump)
          bis,       \* their structural equality (set of pairs of positions)
          taint,     \* positions whose equality cannot be decided (a `skip` type is reachable)
          hc,        \* hook state: type number -> number of its canonical type (absent / 0: none)
          prop,      \* type numbers whose canonical type was propagated and may still be cancelled
          nonconf,   \* types_with_non_confirmed_propagated_ct_
          cur,       \* [t, name, found, n]: canonicalization in progress (t = 0: none)
          names      \* type number -> name under which it was canonicalized
vars == <<l, verdict, dump, bis, taint, hc, prop, nonconf, cur, names>>

(* ---- known findings (placeholders: FALSE until listed; the integrator moves listed ones to KnownFindings.tla) ---------- *)
(* C20-cycle-detection: is_comparison_cycle_detected() answers "l OR r is being compared", so a sub-type pair (l, r') with r' *)
(* another type than the r that l is being compared with is assumed equal: different same-named types (and the pointer /     *)
(* function types built on them) share a canonical type, Compare says "equal" for structurally different types, and           *)
(* `abidw --debug-tc` aborts with "structural & canonical equality different".  A structural predicate on the event would     *)
(* have to recognise "the two types differ only below a pair that was assumed equal"; none is offered -- FALSE.             *)
KF_C20_cycle(ev) == FALSE
(* C20-sticky-propagated-flag: canonical_type_propagated_ is never reset; equals(class_decl) clears the canonical type of an  *)
(* already canonicalized right-hand operand (event Cancel, early, of a type whose canonical type was set by CanonEnd).         *)
KF_C20_sticky_flag(ev) == FALSE
(* C20-debug-abidiff-false-alarms: `abidw --debug-abidiff` prints "error: wrong canonical type for 'function type ...'" for    *)
(* the type of every function-decl read back from ABIXML (such types carry no type-id) and "error: no type with type-id ...    *)
(* could be read back from the typeid file" for the `void` type-decl (cf. C03-void-type-position); the run ends with status 0.  *)
KF_C20_debug_abidiff(ev) == ev.errFnType = 0 /\ ev.errTypeId > 0 /\ ev.typeIdsAreVoid
(* ------------------------------------------------------------------------------------------------------------------------ *)

Get(f, x) == IF x \in DOMAIN f THEN f[x] ELSE 0
Put(f, x, v) == [y \in DOMAIN f \cup {x} |-> IF y = x THEN v ELSE f[y]]

(* ---- structural equality of a dump ---------------------------------------------------------------------- *)
Pos(ts) == 1..Len(ts)
Ref(ts, i) == IF ts[i].decl /\ ts[i].def # 0 THEN ts[i].def ELSE i
Kid(ts, i, j) == Ref(ts, ts[i].kids[j])
LocalEq(ts, a, b) == ts[a].sig = ts[b].sig /\ Len(ts[a].kids) = Len(ts[b].kids)
ChildPairs(ts, a, b) == {<<Kid(ts, a, j), Kid(ts, b, j)>> : j \in 1..Len(ts[a].kids)}
RECURSIVE Refine(_, _)
Refine(ts, R) == LET M == {p \in R : ChildPairs(ts, p[1], p[2]) \subseteq R} IN IF M = R THEN R ELSE Refine(ts, M)
Bisim(ts) == Refine(ts, {p \in Pos(ts) \X Pos(ts) : LocalEq(ts, p[1], p[2])})
StructEq(ts, B, a, b) == <<Ref(ts, a), Ref(ts, b)>> \in B

RECURSIVE Taint(_, _)
Taint(ts, S) == LET M == S \cup {i \in Pos(ts) : \E j \in 1..Len(ts[i].kids) : Kid(ts, i, j) \in S \/ ts[i].kids[j] \in S}
                IN IF M = S THEN S ELSE Taint(ts, M)
Tainted(ts) == Taint(ts, {i \in Pos(ts) : ts[i].skip # "" \/ (ts[i].decl /\ ts[i].def # 0 /\ ts[ts[i].def].skip # "")})

Judged(ts, tn) == {i \in Pos(ts) : ts[i].canon # 0 /\ i \notin tn /\ ts[i].k \notin {"void", "variadic"}}
Unsound(ts, B, tn) == {p \in Judged(ts, tn) \X Judged(ts, tn) :
                         p[1] < p[2] /\ ts[p[1]].canon = ts[p[2]].canon /\ ~StructEq(ts, B, p[1], p[2])}
Incomplete(ts, B, tn) == {p \in Judged(ts, tn) \X Judged(ts, tn) :
                         p[1] < p[2] /\ ts[p[1]].canon # ts[p[2]].canon /\ StructEq(ts, B, p[1], p[2])}
NoCanon(ts, roots) == {i \in roots : ts[i].canon = 0 /\ ~ts[i].decl /\ ts[i].k \notin {"void", "variadic"}}
ToSet(s) == {s[i] : i \in 1..Len(s)}
Min(S) == CHOOSE x \in S : \A y \in S : x[1] < y[1] \/ (x[1] = y[1] /\ x[2] <= y[2])

VDump(ev, B, tn) ==
  LET ts == ev.types
      u == Unsound(ts, B, tn)
      ic == Incomplete(ts, B, tn)
      nc == NoCanon(ts, ToSet(ev.roots))
  IN IF u # {} THEN (IF KF_C20_cycle(ev) THEN "kf:C20-cycle-detection"
                     ELSE LET p == Min(u) IN "bad:same-canonical-type-but-structurally-different:" \o ToString(p[1]) \o ":" \o ToString(p[2]))
     ELSE IF ic # {} THEN LET p == Min(ic) IN "bad:structurally-equal-but-different-canonical-types:" \o ToString(p[1]) \o ":" \o ToString(p[2])
     ELSE IF nc # {} THEN "bad:reachable-type-without-canonical-type:" \o ToString(CHOOSE i \in nc : \A j \in nc : i <= j)
     ELSE "ok"

(* the library's own checks (abidw --debug-tc / --debug-abidiff of the dbgcanon build) never fire *)
VDebugRun(ev) == IF ev.tcDiffers # 0 THEN (IF KF_C20_cycle(ev) THEN "kf:C20-cycle-detection" ELSE "bad:structural-and-canonical-equality-differ:" \o ev.mode)
                 ELSE IF ev.ret # "ok" THEN "bad:debug-check-aborted:" \o ev.mode
                 ELSE IF ev.errOther # 0 THEN "bad:debug-check-reported-an-error:" \o ev.mode
                 ELSE IF ev.errFnType + ev.errTypeId # 0
                      THEN (IF ev.mode = "abidiff" /\ ev.exit = 0 /\ KF_C20_debug_abidiff(ev) THEN "kf:C20-debug-abidiff-void-type-id"
                            ELSE IF ev.errTypeId # 0 THEN "bad:debug-check-type-id-not-read-back:" \o ev.mode
                            ELSE "bad:debug-check-wrong-canonical-type-for-function-type:" \o ev.mode)
                 ELSE IF ev.exit # 0 THEN "bad:debug-check-failed:" \o ev.mode ELSE "ok"

(* ---- the hook events as steps of Canon's algorithm -------------------------------------------------------- *)
NoCur == [t |-> 0, name |-> "", found |-> 0, n |-> 0]

(* the guard of an event: "ok" iff the event is a step the algorithm can take in the reconstructed state *)
Guard(ev) ==
  CASE ev.e = "Reset" -> "ok"
    [] ev.e = "Dump" -> VDump(ev, Bisim(ev.types), Tainted(ev.types))
    [] ev.e = "DebugRun" -> VDebugRun(ev)
    [] ev.e = "CanonBegin" ->
         IF cur.t # 0 THEN "bad:canonicalization-started-inside-another"
         ELSE IF Get(hc, ev.t) # 0 THEN "bad:canonicalized-type-canonicalized-again" ELSE "ok"
    [] ev.e = "Compare" ->
         IF cur.t # ev.t THEN "bad:compare-outside-its-canonicalization"
         ELSE IF cur.found # 0 THEN "bad:compare-after-an-equal-candidate"
         ELSE IF Get(hc, ev.c) # ev.c THEN "bad:candidate-is-not-a-canonical-type"
         ELSE IF Get(names, ev.c) # cur.name THEN "bad:candidate-of-another-name"
         ELSE IF ev.tp # 0 /\ ev.cp # 0 /\ ev.tp \notin taint /\ ev.cp \notin taint /\ ev.r # StructEq(dump, bis, ev.cp, ev.tp)
           THEN (IF ev.r THEN (IF KF_C20_cycle(ev) THEN "kf:C20-cycle-detection" ELSE "bad:compared-equal-but-structurally-different")
                 ELSE "bad:compared-different-but-structurally-equal")
         ELSE "ok"
    [] ev.e = "Propagate" ->
         IF cur.t = 0 THEN "bad:propagation-outside-canonicalization"
         ELSE IF ev.k = 0 \/ Get(hc, ev.c) # ev.k THEN "bad:propagated-from-a-type-without-that-canonical-type"
         ELSE IF Get(hc, ev.t) # 0 THEN "bad:propagated-onto-a-type-with-a-canonical-type" ELSE "ok"
    [] ev.e = "Track" -> IF cur.t = 0 \/ ev.t \notin prop THEN "bad:tracked-type-carries-no-propagated-canonical-type" ELSE "ok"
    [] ev.e = "Confirm" -> IF ev.t \notin nonconf THEN "bad:confirmed-type-was-not-pending" ELSE "ok"
    [] ev.e = "Cancel" ->
         IF cur.t = 0 THEN "bad:cancel-outside-canonicalization"
         ELSE IF ev.cleared /\ Get(hc, ev.t) # 0 /\ ev.t \notin prop
           THEN (IF KF_C20_sticky_flag(ev) THEN "kf:C20-sticky-propagated-flag" ELSE "bad:cancelled-a-canonical-type-that-was-not-propagated")
         ELSE "ok"
    [] ev.e = "CanonAlias" -> "ok"
    [] ev.e = "CanonEnd" ->
         IF cur.t = ev.t /\ ev.c # (IF cur.found # 0 THEN cur.found ELSE cur.t)
           THEN "bad:canonical-type-is-neither-the-equal-candidate-nor-the-type-itself" ELSE "ok"
    [] ev.e = "Final" ->
         LET diff == {j \in 1..Len(ev.canon) : Get(hc, ev.canon[j][1]) # ev.canon[j][2]} IN
         IF cur.t # 0 THEN "bad:canonicalization-never-ended"
         ELSE IF diff # {} THEN "bad:hook-state-differs-from-the-loaded-types:" \o ToString(ev.canon[CHOOSE j \in diff : TRUE][1])
         ELSE "ok"
    [] OTHER -> "bad:unknown-event"

(* the effect of an event on the reconstructed state (applied whatever the guard said: one deviation, one rejection) *)
Step(ev) ==
  /\ verdict' = Guard(ev)
  /\ CASE ev.e = "Reset" ->
             /\ dump' = <<>> /\ bis' = {} /\ taint' = {} /\ hc' = <<>> /\ prop' = {} /\ nonconf' = {} /\ cur' = NoCur /\ names' = <<>>
        [] ev.e = "Dump" ->
             /\ dump' = ev.types /\ bis' = Bisim(ev.types) /\ taint' = Tainted(ev.types) /\ UNCHANGED <<hc, prop, nonconf, cur, names>>
        [] ev.e = "CanonBegin" ->
             /\ cur' = [t |-> ev.t, name |-> ev.name, found |-> 0, n |-> 0] /\ UNCHANGED <<dump, bis, taint, hc, prop, nonconf, names>>
        [] ev.e = "Compare" ->
             /\ cur' = [cur EXCEPT !.found = IF ev.r THEN ev.c ELSE @, !.n = @ + 1] /\ UNCHANGED <<dump, bis, taint, hc, prop, nonconf, names>>
        [] ev.e = "Propagate" ->
             /\ hc' = Put(hc, ev.t, ev.k) /\ prop' = prop \cup {ev.t} /\ UNCHANGED <<dump, bis, taint, nonconf, cur, names>>
        [] ev.e = "Track" -> /\ nonconf' = nonconf \cup {ev.t} /\ UNCHANGED <<dump, bis, taint, hc, prop, cur, names>>
        [] ev.e = "Confirm" -> /\ nonconf' = nonconf \ {ev.t} /\ UNCHANGED <<dump, bis, taint, hc, prop, cur, names>>
        [] ev.e = "Cancel" ->
             /\ nonconf' = nonconf \ {ev.t}
             /\ hc' = IF ev.cleared THEN Put(hc, ev.t, 0) ELSE hc
             /\ prop' = IF ev.cleared THEN prop \ {ev.t} ELSE prop
             /\ UNCHANGED <<dump, bis, taint, cur, names>>
        [] ev.e = "CanonAlias" -> /\ hc' = Put(hc, ev.t, ev.c) /\ UNCHANGED <<dump, bis, taint, prop, nonconf, cur, names>>
        [] ev.e = "CanonEnd" ->
             \* cur.t = 0: canonicalize() of a type that needs no comparison (it already has a canonical type / never gets one)
             /\ hc' = IF ev.c # 0 \/ cur.t # 0 THEN Put(hc, ev.t, ev.c) ELSE hc
             /\ prop' = prop \ {ev.t}
             /\ names' = IF cur.t # 0 THEN Put(names, ev.t, cur.name) ELSE names
             /\ cur' = NoCur /\ UNCHANGED <<dump, bis, taint, nonconf>>
        [] OTHER -> UNCHANGED <<dump, bis, taint, hc, prop, nonconf, cur, names>>

TInit == /\ l = 1 /\ verdict = "ok" /\ dump = <<>> /\ bis = {} /\ taint = {} /\ hc = <<>> /\ prop = {} /\ nonconf = {}
         /\ cur = NoCur /\ names = <<>>
TNext == l <= Len(T) /\ l' = l + 1 /\ Step(T[l])
TSpec == TInit /\ [][TNext]_vars
Report == verdict = "ok" \/ PrintT(ToJson([i |-> l - 1, v |-> verdict]))
Accepted == TLCGet("stats").diameter - 1 = Len(T)
====================================================================================================
