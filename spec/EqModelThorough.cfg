CONSTANTS MaxTypes = 3
  MaxMembers = 2
  MaxIfaces = 1
  MutCats = {"breaking", "unlisted", "harmless"}
  MinMuts = 1
  MaxMuts = 1
  Lang = "c"
  BaseIds = {3, 4}
  FixedBudget = TRUE
SPECIFICATION Spec
INVARIANTS InvWellFormed InvEqSymmetric InvEqReflexive InvChangedSymmetric InvEqImpliesHashEq
CHECK_DEADLOCK FALSE
