CONSTANTS Universe <- DefaultUniverse
          ListedNames <- DefaultListed
          Lits <- DefaultLits
          MaxOpts = 0
          Oddities = {}
SPECIFICATION TSpec
INVARIANTS Report Conformance
POSTCONDITION Accepted
CHECK_DEADLOCK FALSE
