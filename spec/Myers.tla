------------------------------------------ MODULE Myers ------------------------------------------
(* Sequence diffing as libabigail's diff_utils::compute_diff promises it (property C38).           *)
(* The module states the *contract* declaratively (LCS by dynamic programming, cross-checked here   *)
(* against the brute-force definition), defines what a correct result is for any equality          *)
(* predicate, and gives a reference differ that proves the contract satisfiable.  The pair space   *)
(* it enumerates is the space the conformance harness replays into the real compute_diff.          *)
EXTENDS Naturals, Integers, Sequences, FiniteSets, TLC

CONSTANTS Alphabet,      \* a set of small naturals
          MaxLen         \* maximal sequence length explored

Max(a, b) == IF a >= b THEN a ELSE b

(* Equality predicates a caller may supply.  "id": plain equality.  "mod2": equal modulo 2 -- a     *)
(* non-trivial equivalence coarser than identity, as a user-supplied functor may be.                *)
Eq(mode, x, y) == IF mode = "id" THEN x = y ELSE (x % 2) = (y % 2)

(* Length of a longest common subsequence, by the classical recurrence. *)
LCSLen(A, B, mode) ==
  LET L[i \in 0..Len(A), j \in 0..Len(B)] ==
        IF i = 0 \/ j = 0 THEN 0
        ELSE IF Eq(mode, A[i], B[j]) THEN L[i-1, j-1] + 1
        ELSE Max(L[i-1, j], L[i, j-1])
  IN L[Len(A), Len(B)]

(* The definition the recurrence must agree with: the largest k such that some strictly increasing *)
(* k-point matching exists.                                                                         *)
IsMatching(P, A, B, mode) ==       \* P: a sequence of <<x,y>> (1-based)
  /\ \A i \in 1..Len(P) : /\ P[i][1] \in 1..Len(A) /\ P[i][2] \in 1..Len(B)
                          /\ Eq(mode, A[P[i][1]], B[P[i][2]])
  /\ \A i \in 1..Len(P)-1 : P[i][1] < P[i+1][1] /\ P[i][2] < P[i+1][2]

RECURSIVE BruteLCS(_, _, _)
BruteLCS(A, B, mode) ==
  IF A = <<>> \/ B = <<>> THEN 0
  ELSE LET a == Head(A) b == Head(B)
       IN IF Eq(mode, a, b) THEN 1 + BruteLCS(Tail(A), Tail(B), mode)
          ELSE Max(BruteLCS(Tail(A), B, mode), BruteLCS(A, Tail(B), mode))

(* ---- results: an edit script and a common subsequence ---------------------------------------- *)
(* del : sequence of 1-based indices of A that are deleted                                          *)
(* ins : sequence of records [at |-> p, idx |-> seq of 1-based indices of B], meaning "insert these *)
(*       elements of B after the p-th element of A" (p = 0: before the first element)               *)
(* lcs : sequence of <<x, y>> 1-based points                                                        *)
InsertedAt(ins, p) ==              \* all B indices inserted at p, in script order
  LET F[i \in 0..Len(ins)] == IF i = 0 THEN <<>>
                              ELSE IF ins[i].at = p THEN F[i-1] \o ins[i].idx ELSE F[i-1]
  IN F[Len(ins)]

Apply(A, B, del, ins) ==           \* the sequence of B-or-A elements obtained by running the script
  LET D == {del[i] : i \in 1..Len(del)}
      Pick(idx) == [k \in 1..Len(idx) |-> B[idx[k]]]
      F[i \in 0..Len(A)] == IF i = 0 THEN Pick(InsertedAt(ins, 0))
                            ELSE F[i-1] \o (IF i \in D THEN <<>> ELSE <<A[i]>>) \o Pick(InsertedAt(ins, i))
  IN F[Len(A)]

SeqEq(X, Y, mode) == Len(X) = Len(Y) /\ \A i \in 1..Len(X) : Eq(mode, X[i], Y[i])

ScriptWellFormed(A, B, del, ins) ==
  /\ \A i \in 1..Len(del) : del[i] \in 1..Len(A)
  /\ \A i, j \in 1..Len(del) : i # j => del[i] # del[j]
  /\ \A i \in 1..Len(ins) : /\ ins[i].at \in 0..Len(A)
                            /\ \A k \in 1..Len(ins[i].idx) : ins[i].idx[k] \in 1..Len(B)

ScriptLen(del, ins) ==
  LET F[i \in 0..Len(ins)] == IF i = 0 THEN 0 ELSE F[i-1] + Len(ins[i].idx)
  IN Len(del) + F[Len(ins)]

ScriptCorrect(A, B, mode, del, ins, seslen) ==
  /\ ScriptWellFormed(A, B, del, ins)
  /\ SeqEq(Apply(A, B, del, ins), B, mode)                       \* turns A into B
  /\ ScriptLen(del, ins) = Len(A) + Len(B) - 2 * LCSLen(A, B, mode)  \* and is shortest
  /\ seslen = ScriptLen(del, ins)

LcsCorrect(A, B, mode, lcs) ==
  /\ IsMatching(lcs, A, B, mode)
  /\ Len(lcs) = LCSLen(A, B, mode)

Correct(A, B, mode, del, ins, lcs, seslen) ==
  ScriptCorrect(A, B, mode, del, ins, seslen) /\ LcsCorrect(A, B, mode, lcs)

(* ---- a reference differ: shows the contract is satisfiable for every input --------------------- *)
RECURSIVE RefLcs(_, _, _, _, _)
RefLcs(A, B, mode, i, j) ==        \* matching of A[i..], B[j..]
  IF i > Len(A) \/ j > Len(B) THEN <<>>
  ELSE IF Eq(mode, A[i], B[j]) /\ LCSLen(SubSeq(A, i, Len(A)), SubSeq(B, j, Len(B)), mode)
                                   = 1 + LCSLen(SubSeq(A, i+1, Len(A)), SubSeq(B, j+1, Len(B)), mode)
       THEN <<<<i, j>>>> \o RefLcs(A, B, mode, i+1, j+1)
  ELSE IF LCSLen(SubSeq(A, i+1, Len(A)), SubSeq(B, j, Len(B)), mode)
            >= LCSLen(SubSeq(A, i, Len(A)), SubSeq(B, j+1, Len(B)), mode)
       THEN RefLcs(A, B, mode, i+1, j)
  ELSE RefLcs(A, B, mode, i, j+1)

RefDel(A, lcs) == LET X == {lcs[k][1] : k \in 1..Len(lcs)}
                      F[i \in 0..Len(A)] == IF i = 0 THEN <<>> ELSE IF i \in X THEN F[i-1] ELSE Append(F[i-1], i)
                  IN F[Len(A)]
RefIns(A, B, lcs) ==               \* every unmatched B index j is inserted after the A index matched to the last matched B index < j
  LET Y == {lcs[k][2] : k \in 1..Len(lcs)}
      At(j) == LET S == {k \in 1..Len(lcs) : lcs[k][2] < j} IN IF S = {} THEN 0 ELSE lcs[CHOOSE k \in S : \A m \in S : m <= k][1]
      F[j \in 0..Len(B)] == IF j = 0 THEN <<>> ELSE IF j \in Y THEN F[j-1] ELSE Append(F[j-1], [at |-> At(j), idx |-> <<j>>])
  IN F[Len(B)]

(* ---- the explored space: all pairs of sequences up to MaxLen, both predicates ------------------ *)
VARIABLES A, B, mode
vars == <<A, B, mode>>
Init == A = <<>> /\ B = <<>> /\ mode \in {"id", "mod2"}
GrowA == Len(A) < MaxLen /\ B = <<>> /\ \E c \in Alphabet : A' = Append(A, c) /\ UNCHANGED <<B, mode>>
GrowB == Len(B) < MaxLen /\ \E c \in Alphabet : B' = Append(B, c) /\ UNCHANGED <<A, mode>>
Next == GrowA \/ GrowB
Spec == Init /\ [][Next]_vars

DefinitionAgrees == LCSLen(A, B, mode) = BruteLCS(A, B, mode)
Satisfiable == LET l == RefLcs(A, B, mode, 1, 1)
               IN Correct(A, B, mode, RefDel(A, l), RefIns(A, B, l), l, Len(A) + Len(B) - 2 * Len(l))
Symmetric == LCSLen(A, B, mode) = LCSLen(B, A, mode)
====================================================================================================
