\* C28: kernel slice, <= 3 rows
CONSTANT Plans <- PlanC28Quick
SPECIFICATION Spec
INVARIANTS Ideal Faithful Witness
CHECK_DEADLOCK FALSE
