CONSTANT MaxLen = 4
SPECIFICATION Spec
INVARIANT EscapeSound
CHECK_DEADLOCK FALSE
