CONSTANTS Alphabet <- Alpha14
          MaxLen = 99
          Prefix <- PrefixNone
          Fixes <- AllFixes
          ValAlphabet <- ValAlpha
          StrLen = 2
SPECIFICATION TSpec
INVARIANT Report
POSTCONDITION Accepted
CHECK_DEADLOCK FALSE
