\* The specification (all repairs) on every text of at most 3 tokens over Alpha12.  checks/C39.py writes the
\* configurations of the other spaces (prefix, alphabet, length) from this pattern.
CONSTANTS Alphabet <- Alpha12
          MaxLen = 3
          Prefix <- PrefixNone
          Fixes <- AllFixes
          ValAlphabet <- ValAlpha
          StrLen = 1
SPECIFICATION Spec
INVARIANTS ParseTotal ReadWriteRead NeverRejects
CHECK_DEADLOCK FALSE
