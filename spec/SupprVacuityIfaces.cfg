CONSTANTS
  FaithfulRegex = FALSE
  FaithfulHeaders = FALSE
  Mode = "ifaces"
  Tier = "quick"
  MaxMem = 2
SPECIFICATION Spec
CHECK_DEADLOCK FALSE
INVARIANTS NeverExactlyOne
