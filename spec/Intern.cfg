CONSTANTS Contents <- ContentsSmall
          MaxCalls = 5
SPECIFICATION Spec
INVARIANTS SameIffEqualContents CompareLikeContents MixedCompareLikeContents ConvertLikeContents HashLikeContents
           SetLikeContents OrderIsStrictTotal PoolWellFormed
CHECK_DEADLOCK FALSE
