\* C28: kernel slice, <= 4 rows
CONSTANT Plans <- PlanC28Thorough
SPECIFICATION Spec
INVARIANTS Ideal Faithful Witness
CHECK_DEADLOCK FALSE
