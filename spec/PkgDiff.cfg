\* corrected behaviour, strict properties: 3 binaries x 4 states x both packages x 2 layouts x 1..3 workers, every completion order
CONSTANTS Paths = {1, 2, 3}
          Layouts <- DefaultLayouts
          Size <- DefaultSize
          PairBits <- DefaultPairBits
          Vers1 = {"absent", "v1", "v2", "v3"}
          Vers2 = {"absent", "v1", "v2", "v3"}
          MaxWorkers = 3
          Fixed = TRUE
          FixedKeys = TRUE
SPECIFICATION Spec
INVARIANTS TypeOK Verdict EveryBinaryCovered OrderIndependent NotifierStatus
PROPERTY Terminates
CHECK_DEADLOCK TRUE
