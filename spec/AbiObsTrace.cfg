CONSTANTS MaxTypes = 99
  MaxMembers = 99
  MaxIfaces = 99
  MutCats = {}
  MinMuts = 0
  MaxMuts = 0
  Lang = "c"
  BaseIds = {}
  FixedBudget = TRUE
SPECIFICATION TSpec
INVARIANT Report
POSTCONDITION Accepted
CHECK_DEADLOCK FALSE
