---------------------------------------- MODULE ToolsTrace ----------------------------------------
(* Trace validation of tool invocations against Tools.tla (C08, C09, C36).                           *)
(*  Run      : an abidiff / abicompat invocation whose argument and input classes were established    *)
(*             independently by the driver; the recorded exit status must be the one main() yields.   *)
(*  Verdict  : any comparison of any campaign: bit lattice, and change bit <=> printed summary has a  *)
(*             net change.                                                                            *)
(*  Load     : an input that an independent parser (expat) / the file system says is unloadable.      *)
(*  Fault    : an invocation whose output could not be written completely (C36).                      *)
EXTENDS Tools, Json, IOUtils, KnownFindings

T == ndJsonDeserialize(IOEnv.TRACE)
VARIABLES l, verdict

Terminated(ev) == ev.ret = "ok"

VRun(ev) ==
  IF ~Terminated(ev) THEN "bad:crash"
  ELSE LET expected == IF ev.tool = "abidiff"
                       THEN AbidiffExit([args |-> ev.args, suppr |-> ev.suppr, f1 |-> ev.f1, f2 |-> ev.f2, suppressed |-> ev.suppressed,
                                         symtabs |-> ev.symtabs, vmismatch |-> ev.vmismatch, net |-> ev.net, incompat |-> ev.incompat])
                       ELSE AbicompatExit([args |-> ev.args, app |-> ev.f1, lib1 |-> ev.f2, lib2 |-> ev.f3, weak |-> ev.weak,
                                           listonly |-> ev.listonly, suppressed |-> ev.suppressed, net |-> ev.net, incompat |-> ev.incompat])
       IN IF ev.exit = expected THEN "ok"
          ELSE IF Bit(expected, 1) /\ ~Bit(ev.exit, 1) THEN "bad:unloadable-or-misused-input-not-an-error"
          ELSE "bad:exit-status-differs-from-main"

VVerdict(ev) ==
  IF ~Terminated(ev) THEN "bad:crash"
  ELSE IF ev.exit \notin 0..15 THEN "bad:undocumented-status-bits"
  ELSE IF Bit(ev.exit, 8) /\ ~Bit(ev.exit, 4) THEN "bad:incompatible-without-change-bit"
  ELSE IF Bit(ev.exit, 2) /\ ~Bit(ev.exit, 1) THEN "bad:usage-without-error-bit"
  ELSE IF ~Bit(ev.exit, 1) /\ ev.hasSummary /\ (Bit(ev.exit, 4) # ev.summaryNet)
       THEN (IF KF_C08(ev) THEN "kf:" \o KF_C08_id(ev) ELSE "bad:change-bit-disagrees-with-summary")
  ELSE "ok"

VLoad(ev) ==
  IF ~Terminated(ev) THEN "bad:crash"
  ELSE IF ev.unloadable /\ ~Bit(ev.exit, 1) THEN "bad:unloadable-input-not-an-error" ELSE "ok"

VFault(ev) ==
  IF ~Terminated(ev) THEN "bad:crash"
  ELSE IF ev.incomplete /\ ev.exit = 0 THEN "bad:output-lost-but-exit-0" ELSE "ok"

Verdict(ev) == CASE ev.e = "Run" -> VRun(ev) [] ev.e = "Verdict" -> VVerdict(ev) [] ev.e = "Load" -> VLoad(ev)
                 [] ev.e = "Fault" -> VFault(ev) [] OTHER -> "bad:unknown-event"

TInit == l = 1 /\ verdict = "ok" /\ tool = "abidiff" /\ run = [args |-> "ok"] /\ pc = "start" /\ status = 0
TNext == l <= Len(T) /\ l' = l + 1 /\ verdict' = Verdict(T[l]) /\ UNCHANGED vars
TSpec == TInit /\ [][TNext]_<<vars, l, verdict>>
Report == verdict = "ok" \/ PrintT(ToJson([i |-> l - 1, v |-> verdict]))
Accepted == TLCGet("stats").diameter - 1 = Len(T)
====================================================================================================
