CONSTANTS MaxTypes = 2
  MaxMembers = 2
  MaxIfaces = 1
  MutCats = {"breaking", "harmless"}
  MinMuts = 1
  MaxMuts = 1
  Lang = "cxx"
  BaseIds = {3, 4}
  FixedBudget = TRUE
SPECIFICATION Spec
INVARIANTS InvWellFormed InvBisimReflexive InvBreakingVisible InvHarmlessKeepsIfaces
CHECK_DEADLOCK FALSE
