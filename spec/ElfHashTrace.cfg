\* trace validation (C37 Lookup events, C34 Run events); the ElfHash constants are only needed for the shared operators
CONSTANTS Names = {0, 1}
          MaxSyms = 0
          Buckets = {1}
          VerSyms <- VerSymsNone
          VerDefs = {}
          BloomBits = 4
          BloomShapes <- BloomShapesOne
          Hashes <- HashFamily
          MaxSecs = 0
          CorruptLens = {}
          CorruptMax = 0
          CorruptSyms = {}
          CorruptHashes = {}
          FixedSelect = FALSE
          FixedSysV = FALSE
          FixedGnu = FALSE
SPECIFICATION TSpec
INVARIANT Report
POSTCONDITION Accepted
CHECK_DEADLOCK FALSE
