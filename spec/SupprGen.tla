------------------------------------------ MODULE SupprGen ------------------------------------------
(* Generator of suppression sections for the campaigns (TLC -simulate): a section of Suppr.tla is     *)
(* built one property per step from the very component sets the exhaustive configurations of Suppr.tla *)
(* enumerate (NameRegexes, NotRegexes, FileRegexes, IfaceRegexes, OneRange, FewRanges, ...), and        *)
(* printed when complete.  The names in it are the *abstract* names of Suppr.tla's little universe      *)
(* (types S1 = the changed struct, S9 = no type, T3 = a typedef of it; interfaces fn1 fn12 fn3 var4     *)
(* var1, fn9 / zz = no interface; versions V12 V4, V9 = no version; members m1..m4 of the old struct,    *)
(* m9 = the inserted / an absent member; files types.h, other.h; patterns with Q match nothing):        *)
(* checks/_suppr.py maps them onto the names of each generated program (render only).                   *)
EXTENDS Suppr, Json

CONSTANTS Kinds,          \* subset of {"type", "function", "variable", "file"}
          Fields,         \* which properties (step numbers 1..10 below) a section may give: strata of the campaigns
          UseOdds         \* each of them is given with probability 1 / UseOdds
VARIABLES g, step, use
gv == <<g, step, use, vars>>

GInit == g = Section("type") /\ step = 0 /\ use = 0 /\ phase = "gen" /\ lay = <<>> /\ chg = 0 /\ sec = 0 /\ ifs = {} /\ obs = 0
Set(field, S) == \E v \in S : g' = [g EXCEPT ![field] = v]
IsT == g.kind = "type"
IsI == g.kind \in {"function", "variable"}
Last == 10
(* the value of property number `step` *)
Value ==
  CASE step = 1 -> IF IsT THEN Set("name", {"S1", "S9"}) ELSE IF IsI THEN Set("name", {"fn1", "var4", "fn9"}) ELSE UNCHANGED g
    [] step = 2 -> IF IsT THEN Set("name_regexp", NameRegexes \ {NoRe}) ELSE IF IsI THEN Set("name_regexp", IfaceRegexes \ {NoRe}) ELSE UNCHANGED g
    [] step = 3 -> IF IsT THEN Set("name_not_regexp", NotRegexes \ {NoRe})
                   ELSE IF IsI THEN Set("name_not_regexp", {InvalidRegex("("), Re(TRUE, TRUE, <<Lit("fn1")>>), Re(FALSE, FALSE, <<Lit("Q7")>>)}) ELSE UNCHANGED g
    [] step = 4 -> IF IsT THEN Set("type_kind", {"struct", "class", "union", "typedef", "builtin", "enum", "array"})
                   ELSE IF IsI THEN Set("symbol_name", {"fn12", "var1", "fn1", "var4", "zz"}) ELSE UNCHANGED g
    [] step = 5 -> IF IsT THEN Set("accessed_through", {"direct", "pointer", "reference", "reference-or-pointer"})
                   ELSE IF IsI THEN Set("symbol_version", {"V12", "V4", "V1", "V9"}) ELSE UNCHANGED g
    [] step = 6 -> IF IsT THEN Set("source_location_not_in", {<<"types.h">>, <<"other.h">>, <<"other.h", "types.h">>})
                   ELSE IF g.kind = "function" THEN Set("change_kind", {"all", "added-function", "deleted-function", "function-subtype-change", "bogus"})
                   ELSE IF g.kind = "variable" THEN Set("change_kind", {"all", "added-variable", "deleted-variable", "variable-subtype-change", "bogus"})
                   ELSE UNCHANGED g
    [] step = 7 -> Set("file_name_regexp", FileRegexes \ {NoRe})
    [] step = 8 -> Set("soname_regexp", {Re(FALSE, FALSE, <<Lit("Q7")>>), InvalidRegex("a{")})
    [] step = 9 -> IF IsT THEN \E r \in OneRange : g' = [g EXCEPT !.ranges = <<r>>] ELSE UNCHANGED g
    [] OTHER -> IF IsT /\ g.ranges # <<>> THEN \E r \in FewRanges : g' = [g EXCEPT !.ranges = Append(@, r)] ELSE UNCHANGED g
GNext ==
  /\ UNCHANGED vars
  /\ \/ step = 0 /\ (\E k \in Kinds : g' = Section(k)) /\ step' = 1 /\ use' = 0
     \/ step \in 1..Last /\ use = 0 /\ (\E u \in 1..UseOdds : use' = IF step \in Fields THEN u ELSE 2) /\ UNCHANGED <<g, step>>   \* Decide
     \/ step \in 1..Last /\ use = 1 /\ Value /\ step' = step + 1 /\ use' = 0
     \/ step \in 1..Last /\ use > 1 /\ UNCHANGED g /\ step' = step + 1 /\ use' = 0
     \/ step = Last + 1 /\ step' = Last + 2 /\ UNCHANGED <<g, use>>
GSpec == GInit /\ [][GNext]_gv
(* libabigail ignores a section that gives none of its "sufficient" properties; such a section is not emitted *)
Sufficient == \/ g.name # "" \/ g.name_regexp.k # "none" \/ g.name_not_regexp.k # "none" \/ g.file_name_regexp.k # "none" \/ g.soname_regexp.k # "none"
              \/ (IsT /\ (g.type_kind # "" \/ g.source_location_not_in # <<>>))
              \/ (IsI /\ (g.symbol_name # "" \/ g.symbol_version # ""))
EmitG == step # Last + 2 \/ ~Sufficient \/ PrintT(ToJson(g))
====================================================================================================
