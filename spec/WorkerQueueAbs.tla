----------------------------------------- MODULE WorkerQueueAbs -----------------------------------------
(* Atomic abstraction of abigail::workers::queue (src/abg-workers.cc), property C32 (and the queue part *)
(* of C31).  One action per linearization point of the implementation; the two mutexes and the two     *)
(* condition variables of the code are abstracted into the atomicity of the actions and into the guard *)
(* "nobody else is between DonePush and NotifyEnd" (what tasks_done_mutex provides).                   *)
(*                                                                                                     *)
(*   Schedule(t)        main: tasks_todo.push(t)              (t = number in order of scheduling)      *)
(*   Pop(w,t)           worker w: t = tasks_todo.front(); tasks_todo.pop()                             *)
(*   PerformBegin/End   worker w: t->perform()                                                         *)
(*   DonePush(w,t)      worker w: tasks_done.push_back(t)     (enters the "done" critical section)     *)
(*   NotifyBegin/End    worker w: notify(t)                   (NotifyEnd leaves the critical section)  *)
(*   SetDown            main: bring_workers_down = true       (only once the todo queue is empty)      *)
(*   WorkerExit(w)      worker w read bring_workers_down = true and leaves its loop                    *)
(*   WaitReturn         main: all workers joined, wait_for_workers_to_complete returns                 *)
(*                                                                                                     *)
(* Every action is split into a guard XG and an effect XE (X == XG /\ XE) so that the trace            *)
(* specification WorkerQueueAbsTrace can test the guard of a *logged* step and report a verdict        *)
(* instead of merely stopping.  WorkerQueue.tla (the fine-grained pthread model) refines this module.  *)
EXTENDS Integers, Sequences, FiniteSets

CONSTANTS MaxWorkers,     \* worker ids are 1..MaxWorkers; nw of them exist in a given execution
          MaxTasks        \* bound on the number of Schedule steps (model checking only)

VARIABLES nw,             \* number of worker threads of this queue
          main,           \* "sched" (constructing / scheduling / waiting for todo to drain), "down", "returned"
          todo,           \* tasks_todo: sequence of task numbers
          done,           \* tasks_done: sequence of task numbers
          ws,             \* worker state: absent idle popped performing performed pushed notifying exited
          wt,             \* the task a worker holds (0 = none)
          nsched,         \* number of tasks scheduled so far
          performed,      \* history: performed[t] = number of PerformBegin steps of task t   (Len = nsched)
          notified        \* history: notified[t]  = number of completed notifier runs for t  (Len = nsched)

avars == <<nw, main, todo, done, ws, wt, nsched, performed, notified>>

Workers == 1..MaxWorkers
Count(s, x) == Cardinality({i \in DOMAIN s : s[i] = x})
InDoneSection(w) == ws[w] \in {"pushed", "notifying"}

InitWith(n) ==
  /\ nw = n /\ main = "sched" /\ todo = <<>> /\ done = <<>> /\ nsched = 0
  /\ ws = [w \in Workers |-> IF w <= n THEN "idle" ELSE "absent"]
  /\ wt = [w \in Workers |-> 0]
  /\ performed = <<>> /\ notified = <<>>
Init == \E n \in 1..MaxWorkers : InitWith(n)

-----------------------------------------------------------------------------------------------------------
ScheduleG(t) == main = "sched" /\ t = nsched + 1 /\ t <= MaxTasks
ScheduleE(t) == /\ todo' = Append(todo, t) /\ nsched' = t
                /\ performed' = Append(performed, 0) /\ notified' = Append(notified, 0)
                /\ UNCHANGED <<nw, main, done, ws, wt>>
Schedule(t) == ScheduleG(t) /\ ScheduleE(t)

PopG(w, t) == w \in Workers /\ ws[w] = "idle" /\ todo # <<>> /\ t = Head(todo)     \* FIFO: only the head
PopE(w, t) == /\ todo' = Tail(todo) /\ ws' = [ws EXCEPT ![w] = "popped"] /\ wt' = [wt EXCEPT ![w] = t]
              /\ UNCHANGED <<nw, main, done, nsched, performed, notified>>
Pop(w, t) == PopG(w, t) /\ PopE(w, t)

Holds(w, t, s) == w \in Workers /\ ws[w] = s /\ wt[w] = t /\ t \in 1..nsched

PerformBeginG(w, t) == Holds(w, t, "popped")
PerformBeginE(w, t) == /\ ws' = [ws EXCEPT ![w] = "performing"] /\ performed' = [performed EXCEPT ![t] = @ + 1]
                       /\ UNCHANGED <<nw, main, todo, done, wt, nsched, notified>>
PerformBegin(w, t) == PerformBeginG(w, t) /\ PerformBeginE(w, t)

PerformEndG(w, t) == Holds(w, t, "performing")
PerformEndE(w, t) == /\ ws' = [ws EXCEPT ![w] = "performed"]
                     /\ UNCHANGED <<nw, main, todo, done, wt, nsched, performed, notified>>
PerformEnd(w, t) == PerformEndG(w, t) /\ PerformEndE(w, t)

DonePushG(w, t) == Holds(w, t, "performed") /\ \A v \in Workers : ~InDoneSection(v)
DonePushE(w, t) == /\ done' = Append(done, t) /\ ws' = [ws EXCEPT ![w] = "pushed"]
                   /\ UNCHANGED <<nw, main, todo, wt, nsched, performed, notified>>
DonePush(w, t) == DonePushG(w, t) /\ DonePushE(w, t)

NotifyBeginG(w, t) == Holds(w, t, "pushed") /\ \A v \in Workers \ {w} : ~InDoneSection(v)
NotifyBeginE(w, t) == /\ ws' = [ws EXCEPT ![w] = "notifying"]
                      /\ UNCHANGED <<nw, main, todo, done, wt, nsched, performed, notified>>
NotifyBegin(w, t) == NotifyBeginG(w, t) /\ NotifyBeginE(w, t)

NotifyEndG(w, t) == Holds(w, t, "notifying") /\ \A v \in Workers \ {w} : ~InDoneSection(v)
NotifyEndE(w, t) == /\ ws' = [ws EXCEPT ![w] = "idle"] /\ wt' = [wt EXCEPT ![w] = 0]
                    /\ notified' = [notified EXCEPT ![t] = @ + 1]
                    /\ UNCHANGED <<nw, main, todo, done, nsched, performed>>
NotifyEnd(w, t) == NotifyEndG(w, t) /\ NotifyEndE(w, t)

SetDownG == main = "sched" /\ todo = <<>>
SetDownE == main' = "down" /\ UNCHANGED <<nw, todo, done, ws, wt, nsched, performed, notified>>
SetDown == SetDownG /\ SetDownE

WorkerExitG(w) == w \in Workers /\ ws[w] = "idle" /\ main = "down"
WorkerExitE(w) == ws' = [ws EXCEPT ![w] = "exited"] /\ UNCHANGED <<nw, main, todo, done, wt, nsched, performed, notified>>
WorkerExit(w) == WorkerExitG(w) /\ WorkerExitE(w)

WaitReturnG == main = "down" /\ \A w \in 1..nw : ws[w] = "exited"
WaitReturnE == main' = "returned" /\ UNCHANGED <<nw, todo, done, ws, wt, nsched, performed, notified>>
WaitReturn == WaitReturnG /\ WaitReturnE

-----------------------------------------------------------------------------------------------------------
MainNext == Schedule(nsched + 1) \/ SetDown \/ WaitReturn
WorkerNext(w) ==
  \/ todo # <<>> /\ Pop(w, Head(todo))
  \/ PerformBegin(w, wt[w]) \/ PerformEnd(w, wt[w])
  \/ DonePush(w, wt[w]) \/ NotifyBegin(w, wt[w]) \/ NotifyEnd(w, wt[w])
  \/ WorkerExit(w)
Terminated == main = "returned" /\ UNCHANGED avars          \* so that TLC's deadlock check means "stuck before return"
Next == MainNext \/ (\E w \in Workers : WorkerNext(w)) \/ Terminated

SafeSpec == Init /\ [][Next]_avars
Spec == SafeSpec /\ WF_avars(MainNext) /\ \A w \in Workers : WF_avars(WorkerNext(w))

-----------------------------------------------------------------------------------------------------------
TypeOK ==
  /\ nw \in 1..MaxWorkers /\ main \in {"sched", "down", "returned"} /\ nsched \in 0..MaxTasks
  /\ todo \in Seq(1..MaxTasks) /\ done \in Seq(1..MaxTasks)
  /\ ws \in [Workers -> {"absent", "idle", "popped", "performing", "performed", "pushed", "notifying", "exited"}]
  /\ wt \in [Workers -> 0..MaxTasks]
  /\ Len(performed) = nsched /\ Len(notified) = nsched

(* C32: never more than once, and the per-task stages happen in order *)
ExactlyOnce ==
  \A t \in 1..nsched :
     /\ performed[t] <= 1 /\ Count(done, t) <= 1 /\ notified[t] <= 1
     /\ notified[t] <= Count(done, t) /\ Count(done, t) <= performed[t]
     /\ Count(todo, t) + Cardinality({w \in Workers : wt[w] = t}) + notified[t] = 1     \* a task is in exactly one place

(* C32: the notifier never runs concurrently with itself (nor with a push to the done vector) *)
NotifierSequential == Cardinality({w \in Workers : InDoneSection(w)}) <= 1

(* C32: when wait_for_workers_to_complete returns everything scheduled is performed, completed, notified *)
AllDoneAtReturn ==
  main = "returned" =>
     /\ todo = <<>> /\ Len(done) = nsched
     /\ \A t \in 1..nsched : performed[t] = 1 /\ Count(done, t) = 1 /\ notified[t] = 1
     /\ \A w \in 1..nw : ws[w] = "exited"

(* the todo queue is empty from SetDown on (nothing is lost at shutdown) *)
DownMeansDrained == main # "sched" => todo = <<>>

Terminates == <>(main = "returned")
===========================================================================================================
