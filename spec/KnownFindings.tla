-------------------------------------- MODULE KnownFindings --------------------------------------
(* Named predicates for the deviations listed in /verif/known-findings.jsonl with status "known".   *)
(* A trace specification may classify an event that fails its guard as a known finding only through *)
(* one of these predicates; each is as narrow as the listed finding, so any other violation of the  *)
(* same property is still a violation.  "fixed" entries have no predicate here.                     *)
EXTENDS Naturals, Sequences

(* C38: placeholder, FALSE unless the finding is listed (see known-findings.jsonl) *)
KF_C38_lcs(ev) == FALSE

(* C05: a change that keeps the size of a union (a member of the union, or of an aggregate nested by value in it, changes  *)
(* to a type of the same size) is categorized HARMLESS_UNION_CHANGE and the harmless category of the union node outweighs   *)
(* the uncategorized change below it: the whole interface is filtered out by default.  The event is classified as this      *)
(* finding only if the model says the mutated type is a union or lies by value inside one, the edit is a member-type       *)
(* change, and the default report filtered everything (exit 0).                                                            *)
KF_C05_union(ev) == ev.inUnion /\ ev.kinds = <<"member-type">> /\ ev.exit = 0

(* C11 / C19: the default-version re-export rule (see CorpusDiff!KF_DefaultVersionReexport for the structural predicate). *)
(* These flags only say whether the finding is listed in known-findings.jsonl.                                            *)
KF_C11_listed == TRUE
KF_C19_listed == TRUE

(* C08: FALSE unless listed *)
KF_C08(ev) == FALSE
KF_C08_id(ev) == "none"

(* C03: the DWARF reader's `void` type is not among the canonical types of the translation unit's scope, so abidw emits    *)
(* <type-decl name='void'> last (as a merely referenced type) while the ABIXML reader makes it an ordinary type of the scope *)
(* and abilint emits it in sorted position: the element moves and the sequence ids are renumbered.  Classified as this       *)
(* finding only if the document has the void type-decl, the two documents have the same lines once type ids are masked, and   *)
(* the second abilint round is a fixpoint.                                                                                     *)
KF_C03_void(ev) == ev.hasVoid /\ ev.sameLinesModuloIds /\ ev.h2 = ev.h3

(* C13: same root cause as C05-same-size-change-in-union: the default mode filters the whole interface, the leaf mode reports *)
(* the leaf type change.                                                                                                       *)
KF_C13_union(ev) == ev.inUnion /\ (\E i \in 1..Len(ev.kinds) : ev.kinds[i] = "member-type") /\ ev.exitDefault = 0 /\ ev.exitLeaf = 4

(* C07: the insertion of a non-virtual member function is categorized NON_VIRT_MEM_FUN_CHANGE (filtered by default), but *)
(* no reporter ever lists it: with --harmless the comparison still prints nothing and exits 0.                              *)
KF_C07_method(ev) == ev.kinds = <<"method-add">> /\ ev.exit = 0 /\ ev.hexit = 0

(* C43: DWARF type units as gcc emits them (-fdebug-types-section) are not supported by the DWARF reader: named enums and   *)
(* aggregates referenced through DW_FORM_ref_sig8 come out anonymous or incomplete (DWARF 4, .debug_types) and DWARF 5 type  *)
(* units make get_die_from_offset abort.  Only events whose second build uses gcc with -fdebug-types-section qualify.        *)
KF_C43_type_units(ev) == ev.typeUnits /\ ev.comp = "gcc"

(* C39: the two remaining INI round-trip deviations (writer does not re-escape; adjacent tuple items merge).  The structural *)
(* condition is evaluated in IniTrace.tla against the transcription of the current code; this flag says they are listed.         *)
KF_C39_listed == TRUE

(* C25: FALSE unless listed *)
KF_C25(ev) == FALSE
KF_C25_Id(ev) == "none"

(* C04: FALSE unless listed *)
KF_C04_unescaped(ev) == FALSE
====================================================================================================
