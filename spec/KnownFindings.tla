-------------------------------------- MODULE KnownFindings --------------------------------------
(* Named predicates for the deviations listed in /verif/known-findings.jsonl with status "known".   *)
(* A trace specification may classify an event that fails its guard as a known finding only through *)
(* one of these predicates; each is as narrow as the listed finding, so any other violation of the  *)
(* same property is still a violation.  "fixed" entries have no predicate here.                     *)
EXTENDS Naturals, Sequences

(* C38: placeholder, FALSE unless the finding is listed (see known-findings.jsonl) *)
KF_C38_lcs(ev) == FALSE
====================================================================================================
