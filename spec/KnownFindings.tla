-------------------------------------- MODULE KnownFindings --------------------------------------
(* Named predicates for the deviations listed in /verif/known-findings.jsonl with status "known".   *)
(* A trace specification may classify an event that fails its guard as a known finding only through *)
(* one of these predicates; each is as narrow as the listed finding, so any other violation of the  *)
(* same property is still a violation.  "fixed" entries have no predicate here.                     *)
EXTENDS Naturals, Sequences

(* C38: placeholder, FALSE unless the finding is listed (see known-findings.jsonl) *)
KF_C38_lcs(ev) == FALSE

(* C05: a change that keeps the size of a union (a member of the union, or of an aggregate nested by value in it, changes  *)
(* to a type of the same size) is categorized HARMLESS_UNION_CHANGE and the harmless category of the union node outweighs   *)
(* the uncategorized change below it: the whole interface is filtered out by default.  The event is classified as this      *)
(* finding only if the model says the mutated type is a union or lies by value inside one, the edit is a member-type       *)
(* change, and the default report filtered everything (exit 0).                                                            *)
KF_C05_union(ev) == ev.inUnion /\ ev.kinds = <<"member-type">> /\ ev.exit = 0

(* C05: same mechanism, without a union: libabigail attaches *no* category to a return-type change, to a member-type change   *)
(* that keeps sizes and offsets, or to a changed enumerator value; diff::priv::is_filtered_out reports a node whose category  *)
(* set is empty, but filters one whose set holds only harmless categories -- so such a change is hidden as soon as the same    *)
(* interface also carries a change that has a harmless category (a parameter that became top-level const, an appended         *)
(* enumerator, a renamed typedef).  Classified as this finding only if the breaking entry is of one of these kinds, every      *)
(* interface it touches is also touched by a harmless entry of the pair, and `--harmless` on the same pair does list an        *)
(* affected interface (the change was computed and then filtered, not missed).                                                 *)
C05_UncategorizedKinds == {"return-type", "member-type", "enumerator-value"}
KF_C05_beside(ev) ==
  /\ Len(ev.kinds) = 1 /\ ev.kinds[1] \in C05_UncategorizedKinds
  /\ ev.affected # <<>> /\ \A i \in 1..Len(ev.affected) : \E j \in 1..Len(ev.hlTouched) : ev.hlTouched[j] = ev.affected[i]
  /\ \E i \in 1..Len(ev.affected) : \E j \in 1..Len(ev.hnamed) : ev.hnamed[j] = ev.affected[i]

(* C11 / C19: the default-version re-export rule (see CorpusDiff!KF_DefaultVersionReexport for the structural predicate). *)
(* These flags only say whether the finding is listed in known-findings.jsonl.                                            *)
KF_C11_listed == TRUE
KF_C19_listed == TRUE

(* C08: FALSE unless listed *)
KF_C08(ev) == FALSE
KF_C08_id(ev) == "none"

(* C03: the DWARF reader's `void` type is not among the canonical types of the translation unit's scope, so abidw emits    *)
(* <type-decl name='void'> last (as a merely referenced type) while the ABIXML reader makes it an ordinary type of the scope *)
(* and abilint emits it in sorted position: the element moves and the sequence ids are renumbered.  Classified as this       *)
(* finding only if the document has the void type-decl, the two documents have the same lines once type ids are masked, and   *)
(* the second abilint round is a fixpoint.                                                                                     *)
KF_C03_void(ev) == ev.hasVoid /\ ev.sameLinesModuloIds /\ ev.h2 = ev.h3

(* C03: compilers describe some C++ classes as declarations that nevertheless carry member functions or data members (clang's       *)
(* limited debug info; gcc for a class completed in another unit); abidw writes <class-decl is-declaration-only='yes'> with           *)
(* <member-function> / <data-member> children, the ABIXML reader does not attach them to a declaration-only class, and abilint       *)
(* writes the class without them.  Classified as this finding only if the document has such      *)
(* elements, the two documents have the same lines (type ids masked) once exactly those elements are removed from the first, and the  *)
(* second abilint round is a fixpoint.                                                                                               *)
KF_C03_declonly(ev) == ev.declOnlyMemFnLines > 0 /\ ev.sameLinesModuloIdsAndDeclOnlyMemFns /\ ev.h2 = ev.h3

(* C13: same root cause as C05-same-size-change-in-union: the default mode filters the whole interface, the leaf mode reports *)
(* the leaf type change.                                                                                                       *)
KF_C13_union(ev) == ev.inUnion /\ (\E i \in 1..Len(ev.kinds) : ev.kinds[i] = "member-type") /\ ev.exitDefault = 0 /\ ev.exitLeaf = 4

(* C13: a parameter whose typedef was renamed AND that became top-level const (`T6 p` -> `const T110 p`): each edit alone is filtered as      *)
(* harmless, together the default mode sees a typedef turned into a const-qualified type (a "distinct" change, no category) and reports it   *)
(* (exit 4) while the leaf mode records no leaf change (exit 0).  Classified as this finding only if the pair carries nothing but harmless     *)
(* catalogue entries, among them both of these, and the statuses are exactly 4 / 0.                                                         *)
KF_C13_cvtypedef(ev) ==
  /\ \E i \in 1..Len(ev.kinds) : ev.kinds[i] = "param-top-const"
  /\ \E i \in 1..Len(ev.kinds) : ev.kinds[i] = "typedef-rename"
  /\ \A i \in 1..Len(ev.kinds) : ev.kinds[i] \in {"param-top-const", "typedef-rename", "enumerator-append", "access-change", "method-add"}
  /\ ev.exitDefault = 4 /\ ev.exitLeaf = 0

(* C07: the insertion of a non-virtual member function is categorized NON_VIRT_MEM_FUN_CHANGE (filtered by default), but *)
(* no reporter ever lists it: with --harmless the comparison still prints nothing and exits 0.                              *)
KF_C07_method(ev) == ev.kinds = <<"method-add">> /\ ev.exit = 0 /\ ev.hexit = 0

(* C43: DWARF type units as gcc emits them (-fdebug-types-section) are not supported by the DWARF reader: named enums and   *)
(* aggregates referenced through DW_FORM_ref_sig8 come out anonymous or incomplete (DWARF 4, .debug_types) and DWARF 5 type  *)
(* units make get_die_from_offset abort.  Only events whose second build uses gcc with -fdebug-types-section qualify.        *)
KF_C43_type_units(ev) == ev.typeUnits /\ ev.comp = "gcc"

(* C39: the two remaining INI round-trip deviations (writer does not re-escape; adjacent tuple items merge).  The structural *)
(* condition is evaluated in IniTrace.tla against the transcription of the current code; this flag says they are listed.         *)
KF_C39_listed == TRUE

(* C25: FALSE unless listed *)
KF_C25(ev) == FALSE
KF_C25_Id(ev) == "none"

(* ---- C33: the ABIXML reader asserts instead of rejecting a semantically broken document --------------------------------- *)
(* Events carry: mutation (class), action (Reader.tla action), kind, fn, site (last component of fn).  Three listed classes:    *)
(*  C33-reader-asserts        : an ABG_ASSERT / abort() in one of the reader's build_* functions or in the IR routine it calls  *)
(*                              on a half-built type, for a well-formed document whose ids / attributes were mutated.           *)
(*  C33-reference-cycles      : a type made to refer to itself (directly or through typedef/qualified/array types) recurses     *)
(*                              without bound in the reader or in get_type_name / get_pretty_representation.                    *)
(*  C33-function-type-as-object-type : a variable or parameter retargeted to a function-type: null name dereference.           *)
C33_AssertSites == {"build_or_get_type_decl", "build_type_decl", "build_class_decl", "build_union_decl", "build_reference_type_def",
                    "build_pointer_type_def", "build_enum_type_decl", "build_qualified_type_decl", "build_typedef_decl",
                    "build_function_parameter", "build_array_type_def", "build_subrange_type", "build_function_decl", "build_var_decl",
                    "build_function_type", "read_access", "get_exemplar_type", "get_generic_anonymous_internal_type_name",
                    "hash_as_canonical_type_or_constant", "get_length", "add_corpus", "push_and_key_type_decl", "key_type_decl"}
C33_RecursionSites == {"build_qualified_type_decl", "build_array_type_def", "build_enum_type_decl", "build_subrange_type", "build_type",
                       "build_typedef_decl", "build_pointer_type_def", "build_reference_type_def", "build_or_get_type_decl",
                       "get_type_name", "get_pretty_representation", "get_qualified_name", "get_name"}
KF_C33_Id(ev) ==
  IF ev.kind \in {"assert", "abort"} /\ ev.site \in C33_AssertSites /\ (ev.action # "Truncate" \/ ev.wf) THEN "C33-reader-asserts"
  ELSE IF ev.kind = "stack-overflow" /\ ev.site \in C33_RecursionSites /\ ev.action \in {"Retarget", "DanglingRef", "DuplicateId", "Clone"}
       THEN "C33-reference-cycles"
  ELSE IF ev.action = "Retarget" /\ ev.site \in {"get_pretty_representation_of_declarator", "get_pretty_representation"}
          /\ ev.kind \notin {"assert", "abort", "stack-overflow", "timeout"} THEN "C33-function-type-as-object-type"
  ELSE "none"
KF_C33(ev) == KF_C33_Id(ev) # "none"
KF_C35(ev) == FALSE
KF_C35_Id(ev) == "none"

(* ---- C34 ------------------------------------------------------------------------------------------------------------------ *)
(*  C34-dwarf-reader-asserts  : corrupted .debug_info / .debug_str contents end in an ABG_ASSERT of the DWARF reader.            *)
(*  C34-unknown-symbol-binding: a symbol whose st_info carries a binding/type outside the known values: deliberate upstream     *)
(*                              abort (ABG_ASSERT_NOT_REACHED in stb_to_elf_symbol_binding / stt_to_elf_symbol_type).            *)
KF_C34_Id(ev) ==
  IF ev.kind = "assert" /\ ev.section \in {"debug_info", "debug_str", "debug_abbrev", "debug_line", "debug_types"}
     /\ ev.fn \in {"abigail::dwarf_reader::build_pointer_type_def", "abigail::dwarf_reader::die_qualified_type_name",
                   "abigail::dwarf_reader::build_ir_node_from_die", "abigail::dwarf_reader::die_pretty_print_type"}
  THEN "C34-dwarf-reader-asserts"
  ELSE IF ev.section \in {"dynsym", "symtab"} /\ ev.kind \in {"SIG6", "abort", "assert"} /\ ev.detail_is_st_info THEN "C34-unknown-symbol-binding"
  ELSE "none"
KF_C34(ev) == KF_C34_Id(ev) # "none"
KF_C37(ev) == FALSE
KF_C37_Id(ev) == "none"

(* C30: abipkgdiff pairs the binaries of the two packages by a key computed from each package's OWN common directory prefix. *)
KF_C30_listed == TRUE

(* C04: FALSE unless listed *)
KF_C04_unescaped(ev) == FALSE
====================================================================================================
