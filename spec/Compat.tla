------------------------------------------ MODULE Compat ------------------------------------------
(* abicompat judges only the interfaces the application uses (property C29).                        *)
(*                                                                                                  *)
(* A library version is a set of interfaces [name, kind, sig, reach]: kind "fn" / "var", sig the     *)
(* version of its own signature / type, reach the set of shared named types its type refers to; the  *)
(* library also carries the version of every shared type.  An application uses the library symbols it *)
(* leaves undefined (undef) and the variables it holds through a copy relocation (copied: a non-PIC    *)
(* executable *defines* the variable it gets from a shared library); it may also have *other*          *)
(* undefined function / variable symbols (libc's: __libc_start_main is always there; a variable such   *)
(* as stdout may not be).  The application was built against version 1, so its expectation of every    *)
(* type is version 1.                                                                                  *)
(*                                                                                                  *)
(* Part 1: the declarative verdict -- a function of the two library versions *restricted to U*.       *)
(* Part 2: transcription of tools/abicompat.cc (perform_compat_check_in_normal_mode / _in_weak_mode,  *)
(*         corpus::maybe_drop_some_exported_decls with the symbol-id lists), with the oddities of the  *)
(*         pinned code.  Part 3: the enumerated space (one mutation of version 1) and the properties.  *)
EXTENDS Naturals, Integers, Sequences, FiniteSets, TLC, Json

CONSTANTS Names,      \* interface names; Kind gives their kind
          Types,      \* shared named types
          Oddities    \* oddities of the pinned code reproduced by the transcription ({} = corrected)

AllOddities == {"EmptyIdListKeepsAll",        \* keep_wrt_id_of_{fns,vars}_to_keep: an EMPTY list of symbol ids means "keep everything"; abicompat fills one
                                              \* list per kind from the application's undefined symbols, so an application with no undefined variable
                                              \* symbol at all has every variable of the library compared -- and judged
                "IdListsFromUndefinedOnly",   \* the lists hold the *undefined* symbols only: a copy-relocated variable is judged only thanks to the
                                              \* oddity above, and not at all as soon as the application has some undefined variable symbol
                "WeakVarChangeNoStatus"}      \* weak mode: fn_changes set ABIDIFF_ABI_CHANGE, var_changes are only printed

DefaultNames == {"f1", "f2", "v1", "v2"}
Kind(n) == IF n \in {"f1", "f2", "f3"} THEN "fn" ELSE "var"
DefaultTypes == {"S"}

(* exit status bits of abidiff / abicompat *)
CHANGE == 4
INCOMPATIBLE == 8

(* a library version: ifs = [name -> [sig, reach]] for the names it defines, ty = [type -> version] *)
Lib(ifs, ty) == [ifs |-> ifs, ty |-> ty]
Defined(lib) == DOMAIN lib.ifs
Fns(S) == {n \in S : Kind(n) = "fn"}
Vars(S) == {n \in S : Kind(n) = "var"}

(* ================================ 1. declarative verdict ======================================= *)
(* what an interface looks like to a client: its own signature and the versions of the types it reaches *)
View(lib, n) == [sig |-> lib.ifs[n].sig, types |-> [t \in lib.ifs[n].reach |-> lib.ty[t]]]
Restrict(lib, U) == [n \in (Defined(lib) \cap U) |-> View(lib, n)]
(* the verdict on two restricted libraries.  "compat" signatures (sig = 0 -> 2) are the changes libabigail   *)
(* documents as compatible / harmless: filtered, not part of the verdict.                                     *)
Incompatible(a, b) == \/ a.types # b.types
                      \/ (a.sig # b.sig /\ {a.sig, b.sig} # {0, 2})
VerdictOf(r1, r2) ==
  LET removed == DOMAIN r1 \ DOMAIN r2
      changed == {n \in DOMAIN r1 \cap DOMAIN r2 : Incompatible(r1[n], r2[n])}
  IN [exit |-> (IF removed \cup changed # {} THEN CHANGE ELSE 0) + (IF removed # {} THEN INCOMPATIBLE ELSE 0),
      removed |-> removed, changed |-> changed]
NormalVerdict(lib1, lib2, U) == VerdictOf(Restrict(lib1, U), Restrict(lib2, U))

(* weak mode: the library's types against the application's expectation (version 1 = 0) for the used interfaces; *)
(* signatures are not judged (the expected function type is synthesized from the library's own signature)        *)
WeakMismatch(lib, U) == {n \in Defined(lib) \cap U : \E t \in lib.ifs[n].reach : lib.ty[t] # 0}
WeakVerdict(lib, U) == [exit |-> IF WeakMismatch(lib, U) # {} THEN CHANGE ELSE 0, mismatched |-> WeakMismatch(lib, U)]

(* ================================ 2. tools/abicompat.cc ======================================== *)
(* app = [undef, copied, otherFns, otherVars]: undefined symbols the library defines, variables of the library held by copy relocation, *)
(* and whether other undefined function / variable symbols exist                                                                      *)
Used(app) == app.undef \cup app.copied
IdListEmpty(app, kind) == IF kind = "fn" THEN Fns(app.undef) = {} /\ ~app.otherFns ELSE Vars(app.undef) = {} /\ ~app.otherVars
(* corpus::maybe_drop_some_exported_decls after get_sym_ids_of_{fns,vars}_to_keep were filled *)
ImplKept(lib, app, O) ==
  IF "IdListsFromUndefinedOnly" \in O
  THEN IF IdListEmpty(app, "fn") /\ IdListEmpty(app, "var") THEN Defined(lib)       \* "if (!undefined_var.empty() || !undefined_fun.empty())": not called at all
       ELSE {n \in Defined(lib) : n \in app.undef \/ ("EmptyIdListKeepsAll" \in O /\ IdListEmpty(app, Kind(n)))}
  ELSE (* corrected: one list for both kinds = undefined symbols + the variable symbols the application defines *)
       IF Used(app) = {} /\ ~app.otherFns /\ ~app.otherVars THEN Defined(lib)
       ELSE {n \in Defined(lib) : n \in Used(app)}
ImplNormal(lib1, lib2, app, O) ==
  LET k1 == ImplKept(lib1, app, O) k2 == ImplKept(lib2, app, O)
  IN VerdictOf(Restrict(lib1, k1), Restrict(lib2, k2))           \* compute_diff(lib1_corpus, lib2_corpus): net changes -> CHANGE, removals -> INCOMPATIBLE
ImplWeak(lib, app, O) ==
  LET kept == ImplKept(lib, app, O)
      mism == {n \in kept : \E t \in lib.ifs[n].reach : lib.ty[t] # 0}
  IN [exit |-> IF (IF "WeakVarChangeNoStatus" \in O THEN Fns(mism) ELSE mism) # {} THEN CHANGE ELSE 0, mismatched |-> mism]

(* ================================ 3. space and properties ====================================== *)
VARIABLES lib1, lib2, app, mut
vars == <<lib1, lib2, app, mut>>
Libs1 == {Lib(ifs, [t \in Types |-> 0]) : ifs \in UNION {[D -> [sig : {0}, reach : SUBSET Types]] : D \in (SUBSET Names) \ {{}}}}
NoMut == [kind |-> "none", on |-> "none"]
Init == /\ lib1 \in Libs1 /\ lib2 = lib1 /\ mut = NoMut
        /\ app \in {a \in [undef : SUBSET Defined(lib1), copied : SUBSET Vars(Defined(lib1)), otherFns : {TRUE}, otherVars : BOOLEAN] :
                        a.undef \cap a.copied = {}}
(* one mutation of version 1, confined to one interface or one shared type *)
Mutate ==
  /\ mut = NoMut /\ UNCHANGED <<lib1, app>>
  /\ \/ \E n \in Defined(lib1) : /\ lib2' = Lib([m \in Defined(lib1) \ {n} |-> lib1.ifs[m]], lib1.ty)
                                 /\ mut' = [kind |-> "remove", on |-> n]
     \/ \E n \in Defined(lib1) : /\ lib2' = Lib([lib1.ifs EXCEPT ![n].sig = 1], lib1.ty)
                                 /\ mut' = [kind |-> "signature", on |-> n]
     \/ \E n \in Defined(lib1) : /\ lib2' = Lib([lib1.ifs EXCEPT ![n].sig = 2], lib1.ty)
                                 /\ mut' = [kind |-> "compatible", on |-> n]
     \/ \E t \in Types : /\ lib2' = Lib(lib1.ifs, [lib1.ty EXCEPT ![t] = 1])
                         /\ mut' = [kind |-> "type", on |-> t]
Spec == Init /\ [][Mutate]_vars

(* interfaces of version 1 the mutation is visible through *)
Affected == CASE mut.kind \in {"remove", "signature"} -> {mut.on}
              [] mut.kind = "type" -> {n \in Defined(lib1) : mut.on \in lib1.ifs[n].reach}
              [] OTHER -> {}

(* the properties, over the transcription with the configured oddities *)
VerdictIsFunctionOfUsedPart == ImplNormal(lib1, lib2, app, Oddities) = NormalVerdict(lib1, lib2, Used(app))
UnusedIsIrrelevant == Affected \cap Used(app) = {} => ImplNormal(lib1, lib2, app, Oddities).exit = 0
UsedRemovalIsIncompatible == (mut.kind = "remove" /\ mut.on \in Used(app))
                                => ImplNormal(lib1, lib2, app, Oddities).exit = CHANGE + INCOMPATIBLE
UsedChangeIsReported == (mut.kind \in {"signature", "type"} /\ Affected \cap Used(app) # {})
                           => LET v == ImplNormal(lib1, lib2, app, Oddities) IN v.exit = CHANGE /\ v.changed = Affected \cap Used(app)
WeakModeReportsMismatch == LET v == ImplWeak(lib2, app, Oddities)
                           IN /\ v = WeakVerdict(lib2, Used(app))
                              /\ (mut.kind = "type" /\ Affected \cap Used(app) # {}) => (v.exit = CHANGE /\ v.mismatched # {})

(* the declarative verdict itself is sane *)
DefinitionsSane ==
  /\ NormalVerdict(lib1, lib1, Used(app)).exit = 0
  /\ NormalVerdict(lib1, lib2, {}).exit = 0
  /\ \A W \in SUBSET Used(app) : NormalVerdict(lib1, lib2, W).exit = 0 \/ NormalVerdict(lib1, lib2, Used(app)).exit # 0     \* using more never hides a problem
  /\ NormalVerdict(lib1, lib2, Used(app)).removed \cup NormalVerdict(lib1, lib2, Used(app)).changed \subseteq Used(app)

(* "print the difference" (never false): the cases on which the transcription of the pinned code departs from the declarative verdict *)
PinnedDifferences ==
  /\ ImplNormal(lib1, lib2, app, AllOddities) = NormalVerdict(lib1, lib2, Used(app))
       \/ Cardinality(Defined(lib1)) > 2
       \/ PrintT(ToJson([mode |-> "normal", defined |-> Defined(lib1), undef |-> app.undef, copied |-> app.copied, otherVars |-> app.otherVars, mut |-> mut,
                         exit |-> ImplNormal(lib1, lib2, app, AllOddities).exit, expected |-> NormalVerdict(lib1, lib2, Used(app)).exit]))
  /\ ImplWeak(lib2, app, AllOddities) = WeakVerdict(lib2, Used(app))
       \/ Cardinality(Defined(lib1)) > 2
       \/ PrintT(ToJson([mode |-> "weak", defined |-> Defined(lib1), undef |-> app.undef, copied |-> app.copied, otherVars |-> app.otherVars, mut |-> mut,
                         exit |-> ImplWeak(lib2, app, AllOddities).exit, expected |-> WeakVerdict(lib2, Used(app)).exit]))
====================================================================================================
