------------------------------------------- MODULE Abi -------------------------------------------
(* Programs as libabigail sees them: a type graph plus exported functions and variables.           *)
(* The module is (1) the *generator* of the program / program-pair campaigns (TLC -simulate builds  *)
(* a program with the builder actions, then applies mutations from the catalogue, and prints the    *)
(* case together with the expected observation), and (2) the place where the catalogue itself is    *)
(* checked: neutral edits keep the program bisimilar, breaking edits on reachable types do not,     *)
(* harmless edits only touch what the documentation calls harmless (vacuity guard for C05-C07).     *)
(*                                                                                                  *)
(* A type is a record [k, id, t, d, m, e]:                                                          *)
(*   k = "base"    id = index into BaseSize (char short int long uchar ushort uint ulong float double) *)
(*   k = "struct" | "union"   id = name number, m = members [n, t, bw, acc], d = 1 iff C++ class with extras *)
(*   k = "enum"    id = name number, e = enumerators [n, v]                                          *)
(*   k = "typedef" id = name number, t = target                                                      *)
(*   k = "ptr" | "const"      t = target (0 = void, ptr only)                                        *)
(*   k = "array"   t = element, d = dimension                                                        *)
(*   k = "fnptr"   t = return type (0 = void), m = parameters [n = 0, t, bw = 0, acc = ""]          *)
(* Type references are indices into the sequence `types`; 0 is void.                                *)
EXTENDS Naturals, Integers, Sequences, FiniteSets, TLC, Json

CONSTANTS MaxTypes,      \* bound on the number of types
          MaxMembers,    \* bound on members per struct
          MaxIfaces,     \* bound on functions + variables
          MutCats,       \* subset of {"breaking", "harmless"}: which catalogue entries the campaign may apply
          MinMuts, MaxMuts, \* how many mutations a pair carries
          Lang,          \* "c" or "cxx"
          BaseIds,       \* which base types the builder may introduce (subset of 1..NBase)
          FixedBudget    \* TRUE: one initial state with the maximal budgets (exhaustive runs); FALSE: all budgets (generation)

BaseSize == <<1, 2, 4, 8, 1, 2, 4, 8, 4, 8>>
NBase == Len(BaseSize)
IntegerBases == {1, 2, 3, 4, 5, 6, 7, 8}

NoMembers == <<>>
(* C++ classes (Lang = "cxx") add to a struct: b = base classes (type refs), vf = virtual member functions (name numbers, *)
(* in vtable order), mf = non-virtual member functions (name numbers); members carry an access specifier.                 *)
MkType(k, id, t, d, m, e) == [k |-> k, id |-> id, t |-> t, d |-> d, m |-> m, e |-> e, b |-> <<>>, vf |-> <<>>, mf |-> <<>>]
Member(n, t, bw) == [n |-> n, t |-> t, bw |-> bw, acc |-> "public"]

VARIABLES types, fns, vars,      \* the first program
          types2, fns2, vars2,   \* the second program (after mutations)
          muts,                  \* log of applied mutations
          phase, budget, fresh,  \* generator control: phase, remaining steps per phase, next fresh name number
          pick                   \* the kind of construct chosen for the next build / mutate step ("" = none yet)
gvars == <<types, fns, vars, types2, fns2, vars2, muts, phase, budget, fresh, pick>>

TRef(ts) == 1..Len(ts)
IsAgg(ts, i) == ts[i].k \in {"struct", "union"}
Range(s) == {s[i] : i \in 1..Len(s)}

(* ---- structure ------------------------------------------------------------------------------ *)
(* direct references of a type *)
Refs(ts, i) ==
  LET ty == ts[i] IN
    CASE ty.k \in {"struct", "union"} -> {ty.m[j].t : j \in 1..Len(ty.m)} \cup {ty.b[j] : j \in 1..Len(ty.b)}
      [] ty.k = "fnptr" -> ({ty.t} \cup {ty.m[j].t : j \in 1..Len(ty.m)}) \ {0}
      [] ty.k \in {"typedef", "ptr", "const", "array"} -> {ty.t} \ {0}
      [] OTHER -> {}

(* reflexive-transitive closure of Refs from a set of roots (fixpoint iteration) *)
RECURSIVE ReachFrom(_, _)
ReachFrom(ts, S) == LET N == S \cup UNION {Refs(ts, i) : i \in S} IN IF N = S THEN S ELSE ReachFrom(ts, N)

(* aggregates contained *by value* in a type: what must be complete (and defined earlier) in C *)
RECURSIVE ByVal(_, _)
ByVal(ts, i) ==
  IF i = 0 THEN {} ELSE
  LET ty == ts[i] IN
    CASE ty.k \in {"struct", "union"} -> {i} \cup UNION {ByVal(ts, ty.m[j].t) : j \in 1..Len(ty.m)}
                                             \cup UNION {ByVal(ts, ty.b[j]) : j \in 1..Len(ty.b)}
      [] ty.k \in {"typedef", "const", "array"} -> ByVal(ts, ty.t)
      [] OTHER -> {}

InUnion(ts, i) == \E u \in TRef(ts) : ts[u].k = "union" /\ i \in ByVal(ts, u)

(* the type a reference denotes once typedefs and cv are peeled *)
RECURSIVE Strip(_, _)
Strip(ts, i) == IF i = 0 THEN 0 ELSE IF ts[i].k \in {"typedef", "const"} THEN Strip(ts, ts[i].t) ELSE i

RECURSIVE HasTopConst(_, _)
HasTopConst(ts, i) == i # 0 /\ (ts[i].k = "const" \/ (ts[i].k = "typedef" /\ HasTopConst(ts, ts[i].t)))
IsIntegerLike(ts, i) == i # 0 /\ LET s == Strip(ts, i) IN ts[s].k = "base" /\ ts[s].id \in IntegerBases
IsScalar(ts, i) == i # 0 /\ LET s == Strip(ts, i) IN ts[s].k \in {"base", "ptr", "enum", "fnptr"}
IsArrayLike(ts, i) == i # 0 /\ ts[Strip(ts, i)].k = "array"
IsObject(ts, i) == i # 0                              \* every non-void type we build is a complete object type at the end
ParamOk(ts, i) == i # 0 /\ ~IsArrayLike(ts, i)       \* arrays decay when used as parameters: never generated there
RetOk(ts, i) == i = 0 \/ (~IsArrayLike(ts, i) /\ ~HasTopConst(ts, i))   \* C drops top-level qualifiers of a return type: never generated there
ConstOk(ts, i) == i # 0 /\ ts[i].k \in {"base", "ptr", "struct", "union", "enum", "typedef"} /\ ~IsArrayLike(ts, i)

IfaceRoots(f) == ({f.r} \cup {f.p[j].t : j \in 1..Len(f.p)}) \ {0}
FnReach(ts, f) == ReachFrom(ts, IfaceRoots(f))
VarReach(ts, v) == ReachFrom(ts, {v.t})
Reachable(ts, fs, vs) == UNION ({FnReach(ts, fs[i]) : i \in 1..Len(fs)} \cup {VarReach(ts, vs[i]) : i \in 1..Len(vs)})
FnsReaching(ts, fs, i) == {fs[k].id : k \in {k \in 1..Len(fs) : i \in FnReach(ts, fs[k])}}
VarsReaching(ts, vs, i) == {vs[k].id : k \in {k \in 1..Len(vs) : i \in VarReach(ts, vs[k])}}

(* ---- structural equality of two programs' types (bisimulation, by fixpoint refinement) -------- *)
(* Pairs (i, j) of type indices of ts1 / ts2.  Start from "same shape locally", remove pairs whose   *)
(* children are not related, until stable.                                                           *)
LocalEq(a, b) ==
  /\ a.k = b.k
  /\ CASE a.k = "base" -> a.id = b.id
       [] a.k \in {"struct", "union"} -> a.id = b.id /\ Len(a.m) = Len(b.m) /\ a.d = b.d
                                         /\ \A j \in 1..Len(a.m) : a.m[j].n = b.m[j].n /\ a.m[j].bw = b.m[j].bw /\ a.m[j].acc = b.m[j].acc
                                         /\ Len(a.b) = Len(b.b) /\ a.vf = b.vf /\ a.mf = b.mf
       [] a.k = "enum" -> a.id = b.id /\ a.e = b.e
       [] a.k = "typedef" -> a.id = b.id
       [] a.k = "array" -> a.d = b.d
       [] a.k = "fnptr" -> Len(a.m) = Len(b.m) /\ ((a.t = 0) <=> (b.t = 0))
       [] OTHER -> (a.t = 0) <=> (b.t = 0)
ChildPairs(a, b) ==
  CASE a.k \in {"struct", "union"} -> {<<a.m[j].t, b.m[j].t>> : j \in 1..Len(a.m)} \cup {<<a.b[j], b.b[j]>> : j \in 1..Len(a.b)}
    [] a.k = "fnptr" -> ({<<a.t, b.t>>} \cup {<<a.m[j].t, b.m[j].t>> : j \in 1..Len(a.m)}) \ {<<0, 0>>}
    [] a.k \in {"typedef", "ptr", "const", "array"} -> {<<a.t, b.t>>} \ {<<0, 0>>}
    [] OTHER -> {}
RECURSIVE Refine(_, _, _)
Refine(ts1, ts2, R) ==
  LET N == {p \in R : ChildPairs(ts1[p[1]], ts2[p[2]]) \subseteq R}
  IN IF N = R THEN R ELSE Refine(ts1, ts2, N)
Bisim(ts1, ts2) == Refine(ts1, ts2, {p \in TRef(ts1) \X TRef(ts2) : LocalEq(ts1[p[1]], ts2[p[2]])})
TypeEq(B, i, j) == (i = 0 /\ j = 0) \/ <<i, j>> \in B
FnEq(B, f, g) == f.id = g.id /\ f.va = g.va /\ Len(f.p) = Len(g.p) /\ TypeEq(B, f.r, g.r)
                 /\ \A j \in 1..Len(f.p) : TypeEq(B, f.p[j].t, g.p[j].t) /\ f.p[j].c = g.p[j].c
VarEq(B, v, w) == v.id = w.id /\ TypeEq(B, v.t, w.t)
ById(s, id) == {i \in 1..Len(s) : s[i].id = id}

(* interfaces of program 1 that are absent / present-but-different in program 2 *)
RemovedFns == {fns[i].id : i \in {i \in 1..Len(fns) : ById(fns2, fns[i].id) = {}}}
RemovedVars == {vars[i].id : i \in {i \in 1..Len(vars) : ById(vars2, vars[i].id) = {}}}
AddedFns == {fns2[i].id : i \in {i \in 1..Len(fns2) : ById(fns, fns2[i].id) = {}}}
ChangedFns == LET B == Bisim(types, types2) IN
  {fns[i].id : i \in {i \in 1..Len(fns) : \E j \in ById(fns2, fns[i].id) : ~FnEq(B, fns[i], fns2[j])}}
ChangedVars == LET B == Bisim(types, types2) IN
  {vars[i].id : i \in {i \in 1..Len(vars) : \E j \in ById(vars2, vars[i].id) : ~VarEq(B, vars[i], vars2[j])}}

(* ---- builder ---------------------------------------------------------------------------------- *)
Budgets == IF FixedBudget THEN {[ty |-> MaxTypes, mem |-> MaxMembers, ifc |-> MaxIfaces, mut |-> MaxMuts]}
           ELSE [ty : 1..MaxTypes, mem : 0..(2 * MaxMembers), ifc : 1..MaxIfaces, mut : MinMuts..MaxMuts]
Init == /\ types = <<>> /\ fns = <<>> /\ vars = <<>>
        /\ types2 = <<>> /\ fns2 = <<>> /\ vars2 = <<>> /\ muts = <<>>
        /\ phase = "types" /\ budget \in Budgets /\ fresh = 1 /\ pick = ""

(* Kinds are chosen first (one step), details second, so that a simulation run draws kinds uniformly. *)
Choose(ph, kinds) == /\ phase = ph /\ pick = "" /\ pick' \in kinds
                     /\ UNCHANGED <<types, fns, vars, types2, fns2, vars2, muts, phase, budget, fresh>>
Unpick == /\ pick # "" /\ pick' = ""
          /\ UNCHANGED <<types, fns, vars, types2, fns2, vars2, muts, phase, budget, fresh>>

AddType(ty) == /\ types' = Append(types, ty) /\ fresh' = fresh + 1
               /\ budget' = [budget EXCEPT !.ty = @ - 1] /\ pick' = ""
               /\ UNCHANGED <<fns, vars, types2, fns2, vars2, muts, phase>>
TypeKinds == {"base", "struct", "union", "enum", "typedef", "ptr", "const", "array", "fnptr"}
ChooseType == budget.ty > 0 /\ Len(types) < MaxTypes /\ Choose("types", TypeKinds)
BuildType ==
  /\ phase = "types" /\ pick # ""
  /\ \/ pick = "base" /\ \E b \in BaseIds : (\A i \in TRef(types) : ~(types[i].k = "base" /\ types[i].id = b))
                            /\ AddType(MkType("base", b, 0, 0, <<>>, <<>>))
     \/ pick = "struct" /\ \E t \in TRef(types) : AddType(MkType("struct", fresh, 0, 0, <<Member(1, t, 0)>>, <<>>))
     \/ pick = "union" /\ \E t \in TRef(types) : AddType(MkType("union", fresh, 0, 0, <<Member(1, t, 0)>>, <<>>))
     \/ pick = "enum" /\ \E n \in 1..3 : AddType(MkType("enum", fresh, 0, 0, <<>>, [j \in 1..n |-> [n |-> j, v |-> j - 1]]))
     \/ pick = "typedef" /\ \E t \in TRef(types) : AddType(MkType("typedef", fresh, t, 0, <<>>, <<>>))
     \/ pick = "ptr" /\ \E t \in (TRef(types) \cup {0}) : (\A i \in TRef(types) : ~(types[i].k = "ptr" /\ types[i].t = t))
                                          /\ AddType(MkType("ptr", 0, t, 0, <<>>, <<>>))
     \/ pick = "const" /\ \E t \in {i \in TRef(types) : ConstOk(types, i)} : (\A i \in TRef(types) : ~(types[i].k = "const" /\ types[i].t = t))
                                          /\ AddType(MkType("const", 0, t, 0, <<>>, <<>>))
     \/ pick = "array" /\ \E t \in {i \in TRef(types) : types[i].k # "const"}, d \in {1, 3} :
          (\A i \in TRef(types) : ~(types[i].k = "array" /\ types[i].t = t /\ types[i].d = d))
          /\ AddType(MkType("array", 0, t, d, <<>>, <<>>))
     \/ pick = "fnptr" /\ \E r \in ({i \in TRef(types) : IsScalar(types, i) /\ ~HasTopConst(types, i)} \cup {0}), np \in 0..2 :
          \E ps \in [1..np -> {i \in TRef(types) : IsScalar(types, i)}] :
            AddType(MkType("fnptr", 0, r, 0, [j \in 1..np |-> [n |-> 0, t |-> ps[j], bw |-> 0, acc |-> ""]], <<>>))
EndTypes == /\ phase = "types" /\ pick = "" /\ (budget.ty = 0 \/ Len(types) = MaxTypes) /\ Len(types) > 0
            /\ phase' = "members" /\ UNCHANGED <<types, fns, vars, types2, fns2, vars2, muts, budget, fresh, pick>>

(* add a member to an existing aggregate; by-value containment must stay acyclic; a pointer may point anywhere *)
BuildMember ==
  /\ phase = "members" /\ budget.mem > 0
  /\ \E i \in {i \in TRef(types) : IsAgg(types, i) /\ Len(types[i].m) < MaxMembers}, t \in TRef(types) :
       /\ i \notin ByVal(types, t)
       /\ ((types[i].k = "union" \/ InUnion(types, i)) => \A x \in ByVal(types, t) : types[x].vf = <<>>)
       /\ \E bw \in (IF IsIntegerLike(types, t) /\ types[i].k = "struct" /\ types[t].k = "base" THEN {0, 3} ELSE {0}) :
            types' = [types EXCEPT ![i].m = Append(@, Member(Len(@) + 1, t, bw))]
  /\ budget' = [budget EXCEPT !.mem = @ - 1]
  /\ UNCHANGED <<fns, vars, types2, fns2, vars2, muts, phase, fresh, pick>>
(* C++ only: give an existing struct a base class, a virtual or a non-virtual member function, or make a member private.   *)
(* A class with virtual functions is not trivially copyable: it is kept out of unions.                                       *)
BuildClassExtra ==
  /\ Lang = "cxx" /\ phase = "members" /\ budget.mem > 0
  /\ \E i \in {i \in TRef(types) : types[i].k = "struct"} :
       \/ \E j \in {j \in TRef(types) : types[j].k = "struct" /\ j # i} :
            /\ i \notin ByVal(types, j) /\ Len(types[i].b) < 2 /\ \A k \in 1..Len(types[i].b) : types[i].b[k] # j
            /\ (InUnion(types, i) => types[j].vf = <<>> /\ \A x \in ByVal(types, j) : types[x].vf = <<>>)
            /\ types' = [types EXCEPT ![i].b = Append(@, j)] /\ UNCHANGED fresh
       \/ /\ Len(types[i].vf) < 2 /\ ~InUnion(types, i)
          /\ types' = [types EXCEPT ![i].vf = Append(@, fresh)] /\ fresh' = fresh + 1
       \/ /\ Len(types[i].mf) < 2
          /\ types' = [types EXCEPT ![i].mf = Append(@, fresh)] /\ fresh' = fresh + 1
       \/ \E p \in 1..Len(types[i].m) : /\ types[i].m[p].acc = "public"
                                         /\ types' = [types EXCEPT ![i].m[p].acc = "private"] /\ UNCHANGED fresh
  /\ budget' = [budget EXCEPT !.mem = @ - 1]
  /\ UNCHANGED <<fns, vars, types2, fns2, vars2, muts, phase, pick>>
EndMembers == /\ phase = "members"
              /\ phase' = "ifaces" /\ UNCHANGED <<types, fns, vars, types2, fns2, vars2, muts, budget, fresh, pick>>

ChooseIface == budget.ifc > 0 /\ Choose("ifaces", {"fn", "fn", "var"})
BuildIface ==
  /\ phase = "ifaces" /\ pick # ""
  /\ \/ pick = "fn" /\ \E r \in ({i \in TRef(types) : RetOk(types, i)} \cup {0}), np \in 0..2 :
          \E ps \in [1..np -> {i \in TRef(types) : ParamOk(types, i)}] :
            /\ fns' = Append(fns, [id |-> fresh, r |-> r, p |-> [j \in 1..np |-> [t |-> ps[j], c |-> FALSE]], va |-> FALSE])
            /\ UNCHANGED vars
     \/ pick = "var" /\ \E t \in TRef(types) : vars' = Append(vars, [id |-> fresh, t |-> t]) /\ UNCHANGED fns
  /\ fresh' = fresh + 1 /\ budget' = [budget EXCEPT !.ifc = @ - 1] /\ pick' = ""
  /\ UNCHANGED <<types, types2, fns2, vars2, muts, phase>>
EndIfaces == /\ phase = "ifaces" /\ pick = "" /\ budget.ifc = 0 /\ Len(fns) + Len(vars) > 0
             /\ phase' = "mutate" /\ types2' = types /\ fns2' = fns /\ vars2' = vars
             /\ UNCHANGED <<types, fns, vars, muts, budget, fresh, pick>>

(* ---- the mutation catalogue -------------------------------------------------------------------- *)
(* every entry: [kind, cat, ty (type index or 0), iface (name id or 0), pos]                          *)
Mut(kind, cat, ty, iface, pos) == [kind |-> kind, cat |-> cat, ty |-> ty, iface |-> iface, pos |-> pos]
Log(m) == /\ pick = m.kind /\ pick' = ""
          /\ muts' = Append(muts, m) /\ budget' = [budget EXCEPT !.mut = @ - 1]
          /\ UNCHANGED <<types, fns, vars, phase>>
BreakingKinds == {"member-insert", "member-remove", "member-swap", "member-type", "enumerator-value", "array-dim",
                  "param-add", "param-remove", "return-type", "fn-remove", "var-remove", "fnptr-param-add", "fnptr-param-remove"}
                 \cup (IF Lang = "cxx" THEN {"base-add", "base-remove", "virtual-add", "virtual-remove"} ELSE {})
UnlistedKinds == {"var-type"}     \* ABI-relevant edits the statement of C05 does not list: used by the relational campaigns only
HarmlessKinds == {"enumerator-append", "typedef-rename", "param-top-const"}
                 \cup (IF Lang = "cxx" THEN {"access-change", "method-add"} ELSE {})
RemoveAt(s, p) == [j \in 1..(Len(s) - 1) |-> IF j < p THEN s[j] ELSE s[j + 1]]
InsertAt(s, p, x) == [j \in 1..(Len(s) + 1) |-> IF j < p THEN s[j] ELSE IF j = p THEN x ELSE s[j - 1]]
MaxN(ms) == LET S == {ms[j].n : j \in 1..Len(ms)} IN IF S = {} THEN 0 ELSE CHOOSE x \in S : \A y \in S : y <= x
MaxV(es) == LET S == {es[j].v : j \in 1..Len(es)} IN IF S = {} THEN 0 ELSE CHOOSE x \in S : \A y \in S : y <= x
Live2 == Reachable(types2, fns2, vars2)       \* a mutation of a type is only applied where an interface can see it

(* base types a member / return type may be changed to so that the edit is ABI-*incompatible*: a different base type; *)
(* for a base type one of a different size; for an enum not an integer of the enum's size (libabigail documents   *)
(* enum <-> same-size integer as compatible).                                                                      *)
OtherBases(ts, t) ==
  LET s == Strip(ts, t) IN
  {i \in TRef(ts) : /\ ts[i].k = "base" /\ i # s
                    /\ (ts[s].k = "base" => BaseSize[ts[i].id] # BaseSize[ts[s].id])
                    /\ (ts[s].k = "enum" => ~(ts[i].id \in IntegerBases /\ BaseSize[ts[i].id] = 4))}

Breaking ==
  \/ pick = "member-insert" /\ \E i \in {i \in Live2 : types2[i].k = "struct" /\ Len(types2[i].m) < MaxMembers + 1} :
       \E p \in 1..(Len(types2[i].m) + 1), t \in {t \in TRef(types2) : types2[t].k = "base"} :
         /\ types2' = [types2 EXCEPT ![i].m = InsertAt(@, p, Member(MaxN(@) + 1, t, 0))]
         /\ UNCHANGED <<fns2, vars2, fresh>> /\ Log(Mut("member-insert", "breaking", i, 0, p))
  \/ pick = "member-remove" /\ \E i \in {i \in Live2 : types2[i].k = "struct" /\ Len(types2[i].m) > 1} : \E p \in 1..Len(types2[i].m) :
         /\ types2' = [types2 EXCEPT ![i].m = RemoveAt(@, p)]
         /\ UNCHANGED <<fns2, vars2, fresh>> /\ Log(Mut("member-remove", "breaking", i, 0, p))
  \/ pick = "member-swap" /\ \E i \in {i \in Live2 : types2[i].k = "struct" /\ Len(types2[i].m) > 1} : \E p \in 1..(Len(types2[i].m) - 1) :
         /\ types2' = [types2 EXCEPT ![i].m = [@ EXCEPT ![p] = types2[i].m[p + 1], ![p + 1] = types2[i].m[p]]]
         /\ UNCHANGED <<fns2, vars2, fresh>> /\ Log(Mut("member-swap", "breaking", i, 0, p))
  \/ pick = "member-type" /\ \E i \in {i \in Live2 : IsAgg(types2, i)} : \E p \in 1..Len(types2[i].m) :
       \E t \in OtherBases(types2, types2[i].m[p].t) :
         /\ types2[i].m[p].bw = 0 /\ IsScalar(types2, types2[i].m[p].t)
         /\ types2' = [types2 EXCEPT ![i].m[p].t = t]
         /\ UNCHANGED <<fns2, vars2, fresh>> /\ Log(Mut("member-type", "breaking", i, 0, p))
  \* (an enumerator of the *first* program: re-valuing one that an earlier enumerator-append added is just another append)
  \/ pick = "enumerator-value" /\ \E i \in {i \in Live2 : types2[i].k = "enum" /\ i <= Len(types)} : \E p \in 1..Len(types[i].e) :
         /\ types2' = [types2 EXCEPT ![i].e[p].v = MaxV(types2[i].e) + 5]
         /\ UNCHANGED <<fns2, vars2, fresh>> /\ Log(Mut("enumerator-value", "breaking", i, 0, p))
  \/ pick = "array-dim" /\ \E i \in {i \in Live2 : types2[i].k = "array"} :
         /\ types2' = [types2 EXCEPT ![i].d = @ + 1]
         /\ UNCHANGED <<fns2, vars2, fresh>> /\ Log(Mut("array-dim", "breaking", i, 0, 0))
  \/ pick = "param-add" /\ \E k \in 1..Len(fns2) : \E t \in {t \in TRef(types2) : types2[t].k = "base"} :
         /\ Len(fns2[k].p) < 3
         /\ fns2' = [fns2 EXCEPT ![k].p = Append(@, [t |-> t, c |-> FALSE])]
         /\ UNCHANGED <<types2, vars2, fresh>> /\ Log(Mut("param-add", "breaking", 0, fns2[k].id, Len(fns2[k].p) + 1))
  \/ pick = "param-remove" /\ \E k \in 1..Len(fns2) : \E p \in 1..Len(fns2[k].p) :
         /\ fns2' = [fns2 EXCEPT ![k].p = RemoveAt(@, p)]
         /\ UNCHANGED <<types2, vars2, fresh>> /\ Log(Mut("param-remove", "breaking", 0, fns2[k].id, p))
  \/ pick = "return-type" /\ \E k \in 1..Len(fns2) : \E t \in (IF fns2[k].r = 0 THEN {t \in TRef(types2) : types2[t].k = "base"}
                                        ELSE IF IsScalar(types2, fns2[k].r) THEN OtherBases(types2, fns2[k].r) ELSE {}) :
         /\ fns2' = [fns2 EXCEPT ![k].r = t]
         /\ UNCHANGED <<types2, vars2, fresh>> /\ Log(Mut("return-type", "breaking", 0, fns2[k].id, 0))
  \/ pick = "var-type" /\ \E k \in 1..Len(vars2) : \E t \in OtherBases(types2, vars2[k].t) :
         /\ IsScalar(types2, vars2[k].t)
         /\ vars2' = [vars2 EXCEPT ![k].t = t]
         /\ UNCHANGED <<types2, fns2, fresh>> /\ Log(Mut("var-type", "unlisted", 0, vars2[k].id, 0))
  \/ pick = "fn-remove" /\ \E k \in 1..Len(fns2) :
         /\ Len(fns2) + Len(vars2) > 1
         /\ fns2' = RemoveAt(fns2, k)
         /\ UNCHANGED <<types2, vars2, fresh>> /\ Log(Mut("fn-remove", "breaking", 0, fns2[k].id, 0))
  \/ pick = "var-remove" /\ \E k \in 1..Len(vars2) :
         /\ Len(fns2) + Len(vars2) > 1
         /\ vars2' = RemoveAt(vars2, k)
         /\ UNCHANGED <<types2, fns2, fresh>> /\ Log(Mut("var-remove", "breaking", 0, vars2[k].id, 0))

  \/ pick = "fnptr-param-add" /\ \E i \in {i \in Live2 : types2[i].k = "fnptr" /\ Len(types2[i].m) < 3} :
       \E t \in {t \in TRef(types2) : types2[t].k = "base"} :
         /\ types2' = [types2 EXCEPT ![i].m = Append(@, [n |-> 0, t |-> t, bw |-> 0, acc |-> ""])]
         /\ UNCHANGED <<fns2, vars2, fresh>> /\ Log(Mut("fnptr-param-add", "breaking", i, 0, Len(types2[i].m) + 1))
  \/ pick = "fnptr-param-remove" /\ \E i \in {i \in Live2 : types2[i].k = "fnptr" /\ Len(types2[i].m) > 0} : \E p \in 1..Len(types2[i].m) :
         /\ types2' = [types2 EXCEPT ![i].m = RemoveAt(@, p)]
         /\ UNCHANGED <<fns2, vars2, fresh>> /\ Log(Mut("fnptr-param-remove", "breaking", i, 0, p))
  \/ pick = "base-add" /\ \E i \in {i \in Live2 : types2[i].k = "struct"} :
       \E j \in {j \in TRef(types2) : types2[j].k = "struct" /\ j # i} :
         /\ i \notin ByVal(types2, j) /\ Len(types2[i].b) < 2 /\ \A k \in 1..Len(types2[i].b) : types2[i].b[k] # j
         /\ (InUnion(types2, i) => \A x \in ByVal(types2, j) : types2[x].vf = <<>>)
         /\ types2' = [types2 EXCEPT ![i].b = Append(@, j)]
         /\ UNCHANGED <<fns2, vars2, fresh>> /\ Log(Mut("base-add", "breaking", i, 0, 0))
  \/ pick = "base-remove" /\ \E i \in {i \in Live2 : types2[i].k = "struct" /\ types2[i].b # <<>>} : \E p \in 1..Len(types2[i].b) :
         /\ types2' = [types2 EXCEPT ![i].b = RemoveAt(@, p)]
         /\ UNCHANGED <<fns2, vars2, fresh>> /\ Log(Mut("base-remove", "breaking", i, 0, p))
  \/ pick = "virtual-add" /\ \E i \in {i \in Live2 : types2[i].k = "struct" /\ ~InUnion(types2, i)} :
         /\ types2' = [types2 EXCEPT ![i].vf = Append(@, fresh + 200)] /\ fresh' = fresh + 1
         /\ UNCHANGED <<fns2, vars2>> /\ Log(Mut("virtual-add", "breaking", i, 0, 0))
  \/ pick = "virtual-remove" /\ \E i \in {i \in Live2 : types2[i].k = "struct" /\ types2[i].vf # <<>>} : \E p \in 1..Len(types2[i].vf) :
         /\ types2' = [types2 EXCEPT ![i].vf = RemoveAt(@, p)]
         /\ UNCHANGED <<fns2, vars2, fresh>> /\ Log(Mut("virtual-remove", "breaking", i, 0, p))

Harmless ==
  \/ pick = "access-change" /\ \E i \in {i \in Live2 : types2[i].k = "struct"} : \E p \in 1..Len(types2[i].m) :
         /\ types2' = [types2 EXCEPT ![i].m[p].acc = IF @ = "public" THEN "private" ELSE "public"]
         /\ UNCHANGED <<fns2, vars2, fresh>> /\ Log(Mut("access-change", "harmless", i, 0, p))
  \/ pick = "method-add" /\ \E i \in {i \in Live2 : types2[i].k = "struct"} :
         /\ types2' = [types2 EXCEPT ![i].mf = Append(@, fresh + 300)] /\ fresh' = fresh + 1
         /\ UNCHANGED <<fns2, vars2>> /\ Log(Mut("method-add", "harmless", i, 0, 0))
  \/ pick = "enumerator-append" /\ \E i \in {i \in Live2 : types2[i].k = "enum"} :
         /\ types2' = [types2 EXCEPT ![i].e = Append(@, [n |-> Len(@) + 1, v |-> MaxV(@) + 1])]
         /\ UNCHANGED <<fns2, vars2, fresh>> /\ Log(Mut("enumerator-append", "harmless", i, 0, 0))
  \/ pick = "typedef-rename" /\ \E i \in {i \in Live2 : types2[i].k = "typedef"} :
         /\ types2' = [types2 EXCEPT ![i].id = fresh + 100]
         /\ fresh' = fresh + 1
         /\ UNCHANGED <<fns2, vars2>> /\ Log(Mut("typedef-rename", "harmless", i, 0, 0))
  \/ pick = "param-top-const" /\ \E k \in 1..Len(fns2) : \E p \in 1..Len(fns2[k].p) :
         /\ ~fns2[k].p[p].c /\ ~HasTopConst(types2, fns2[k].p[p].t)
         /\ fns2' = [fns2 EXCEPT ![k].p[p].c = TRUE]
         /\ UNCHANGED <<types2, vars2, fresh>> /\ Log(Mut("param-top-const", "harmless", 0, fns2[k].id, p))

ChooseMut == budget.mut > 0 /\ Choose("mutate", (IF "breaking" \in MutCats THEN BreakingKinds ELSE {})
                                                   \cup (IF "unlisted" \in MutCats THEN UnlistedKinds ELSE {})
                                                   \cup (IF "harmless" \in MutCats THEN HarmlessKinds ELSE {}))
Mutate == /\ phase = "mutate" /\ pick # ""
          /\ \/ (MutCats \cap {"breaking", "unlisted"} # {} /\ Breaking)
             \/ ("harmless" \in MutCats /\ Harmless)
Finish == /\ phase = "mutate" /\ pick = "" /\ budget.mut = 0
          /\ phase' = "done" /\ UNCHANGED <<types, fns, vars, types2, fns2, vars2, muts, budget, fresh, pick>>

Next == ChooseType \/ BuildType \/ EndTypes \/ BuildMember \/ BuildClassExtra \/ EndMembers \/ ChooseIface \/ BuildIface \/ EndIfaces
        \/ ChooseMut \/ Mutate \/ Finish \/ Unpick
Spec == Init /\ [][Next]_gvars

(* ---- the expected observation of a finished pair ---------------------------------------------- *)
MutTypes == {muts[j].ty : j \in 1..Len(muts)} \ {0}
Expect ==
  LET brk == {j \in 1..Len(muts) : muts[j].cat = "breaking"}
      hl  == {j \in 1..Len(muts) : muts[j].cat = "harmless"}
  IN [ removedFns |-> RemovedFns, removedVars |-> RemovedVars, addedFns |-> AddedFns,
       changedFns |-> ChangedFns, changedVars |-> ChangedVars,
       abiChanged |-> (RemovedFns \cup RemovedVars \cup ChangedFns \cup ChangedVars \cup AddedFns) # {},
       nBreaking |-> Cardinality(brk), nHarmless |-> Cardinality(hl),
       \* interfaces of program 1 that a *breaking* catalogue entry touches: directly, or through a type they reach
       brkFns |-> {fns[k].id : k \in {k \in 1..Len(fns) : \E j \in brk : muts[j].iface = fns[k].id \/ (muts[j].ty # 0 /\ muts[j].ty \in FnReach(types, fns[k]))}},
       brkVars |-> {vars[k].id : k \in {k \in 1..Len(vars) : \E j \in brk : muts[j].iface = vars[k].id \/ (muts[j].ty # 0 /\ muts[j].ty \in VarReach(types, vars[k]))}},
       \* ... and those a *harmless* entry touches (known finding C05-uncategorized-change-beside-harmless-change)
       hlFns |-> {fns[k].id : k \in {k \in 1..Len(fns) : \E j \in hl : muts[j].iface = fns[k].id \/ (muts[j].ty # 0 /\ muts[j].ty \in FnReach(types, fns[k]))}},
       hlVars |-> {vars[k].id : k \in {k \in 1..Len(vars) : \E j \in hl : muts[j].iface = vars[k].id \/ (muts[j].ty # 0 /\ muts[j].ty \in VarReach(types, vars[k]))}},
       \* some mutated type is a union or sits by value inside a union (see known finding C05-same-size-change-in-union)
       inUnion |-> \E i \in MutTypes : \E u \in TRef(types2) : types2[u].k = "union" /\ i \in ByVal(types2, u) ]

Case == [lang |-> Lang, types |-> types, fns |-> fns, vars |-> vars,
         types2 |-> types2, fns2 |-> fns2, vars2 |-> vars2, muts |-> muts, expect |-> Expect,
         reach |-> Reachable(types, fns, vars)]
Emit == phase # "done" \/ PrintT(ToJson(Case))

(* ---- well-formedness and catalogue sanity: invariants checked exhaustively at small bounds ------ *)
WellFormed(ts, fs, vs) ==
  /\ \A i \in TRef(ts) : Refs(ts, i) \subseteq TRef(ts)
  /\ \A i \in TRef(ts) : IsAgg(ts, i) => /\ Len(ts[i].m) >= 1
                                          /\ \A j \in 1..Len(ts[i].m) : i \notin ByVal(ts, ts[i].m[j].t)
  /\ \A k \in 1..Len(fs) : IfaceRoots(fs[k]) \subseteq TRef(ts)
  /\ \A k \in 1..Len(vs) : vs[k].t \in TRef(ts)
InvWellFormed == WellFormed(types, fns, vars) /\ (phase \in {"mutate", "done"} => WellFormed(types2, fns2, vars2))

(* identity is a bisimulation: the structural equality the oracle uses is reflexive on every program built *)
InvBisimReflexive == phase = "mutate" /\ muts = <<>> =>
                       \A i \in TRef(types) : <<i, i>> \in Bisim(types, types2)
(* a breaking catalogue entry is visible: after breaking mutations only, some interface is removed or structurally different *)
InvBreakingVisible == (phase = "done" /\ muts # <<>> /\ \A j \in 1..Len(muts) : muts[j].cat = "breaking")
                        => Expect.abiChanged
(* harmless entries never remove an interface *)
InvHarmlessKeepsIfaces == (phase = "done" /\ \A j \in 1..Len(muts) : muts[j].cat = "harmless")
                        => RemovedFns = {} /\ RemovedVars = {}
====================================================================================================
