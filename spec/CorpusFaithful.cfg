\* C17, code as it is: the partition holds wherever the named deviation does not apply
CONSTANTS N = 4
          Addrs = {0, 1}
          MaxDies = 3
          Dev = {"walk-stops-at-main"}
SPECIFICATION Spec
INVARIANTS OnlyNamedDeviations TypeOK
CHECK_DEADLOCK FALSE
