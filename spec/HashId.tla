------------------------------------------ MODULE HashId ------------------------------------------
(* Hash-style type ids of the ABIXML writer (property C40).                                         *)
(*                                                                                                  *)
(* write_context::get_id_for_type, case HASH_TYPE_ID_STYLE (src/abg-writer.cc):                     *)
(*     hash = fnv_hash(internal pretty representation of the type);                                 *)
(*     while (!m_used_type_id_hashes.insert(hash).second) ++hash;                                   *)
(*     id = hex(hash)                                                                               *)
(* i.e. open addressing with linear probing in the set of ids already used *in this document*.      *)
(* The model abstracts the hash to a function H over a small range so that collisions happen, and    *)
(* builds two documents by emitting types (AssignId is the linearization point; a type is given its  *)
(* id the first time it is emitted or referenced, so every order of first mention is possible).      *)
(* There is no wrap-around: the counter simply grows (the real one is a size_t above a 32-bit hash). *)
EXTENDS Naturals, Integers, Sequences, FiniteSets, TLC, Json

CONSTANTS Names,       \* internal type names
          HashRange,   \* H ranges over 0..HashRange-1
          Step         \* the probing increment (1 in the code: ++hash)

VARIABLES H,           \* the hash function (chosen once; the same for every document: it only depends on the name)
          ids1, ids2   \* the two documents: name -> assigned id, for the names mentioned so far
vars == <<H, ids1, ids2>>

Used(ids) == {ids[n] : n \in DOMAIN ids}
RECURSIVE Probe(_, _)
Probe(h, used) == IF h \in used THEN Probe(h + Step, used) ELSE h        \* while (!insert(hash).second) ++hash;
Extend(ids, n) == [m \in DOMAIN ids \cup {n} |-> IF m = n THEN Probe(H[n], Used(ids)) ELSE ids[m]]

Init == H \in [Names -> 0..(HashRange - 1)] /\ ids1 = <<>> /\ ids2 = <<>>
AssignId1(n) == n \notin DOMAIN ids1 /\ ids1' = Extend(ids1, n) /\ UNCHANGED <<H, ids2>>
AssignId2(n) == n \notin DOMAIN ids2 /\ ids2' = Extend(ids2, n) /\ UNCHANGED <<H, ids1>>
Next == \E n \in Names : AssignId1(n) \/ AssignId2(n)
Spec == Init /\ [][Next]_vars

(* ---- properties, stated on (hash function, document) so that the trace specification can evaluate them on observed documents ---- *)
IdsUnique(ids) == \A m, n \in DOMAIN ids : m # n => ids[m] # ids[n]
(* every slot from the name's own hash up to (excluding) its id is held by another type of the same document *)
PathOccupied(h, ids, n) == \A s \in h[n]..(ids[n] - 1) : \E m \in DOMAIN ids \ {n} : ids[m] = s
(* "that name's hash collides ... in the document": the name did not get its own hash because others hold the slots before its id *)
Displaced(h, ids, n) == ids[n] > h[n] /\ PathOccupied(h, ids, n)
(* id = hash + probes, probes > 0 only if the slots are taken *)
IdFromHash(h, ids) == \A n \in DOMAIN ids : ids[n] >= h[n] /\ PathOccupied(h, ids, n)
(* the property: a name common to two documents has the same id in both unless it was displaced in one of them *)
StableFor(h, a, b, n) == a[n] = b[n] \/ Displaced(h, a, n) \/ Displaced(h, b, n)
Stable(h, a, b) == \A n \in DOMAIN a \cap DOMAIN b : StableFor(h, a, b, n)

HashIdStable == Stable(H, ids1, ids2)
IdsWellFormed == IdsUnique(ids1) /\ IdsUnique(ids2) /\ IdFromHash(H, ids1) /\ IdFromHash(H, ids2)
(* without any collision in either document the id IS the hash, whatever the documents contain otherwise *)
NoCollisionNoProbe == \A n \in DOMAIN ids1 : (\A m \in DOMAIN ids1 \ {n} : H[m] # H[n] /\ ids1[m] # H[n]) => ids1[n] = H[n]

(* "print the difference" (never false).  The statement of C40 reads "unless that name's hash collides with another type's HASH"; with   *)
(* linear probing a name can also be displaced by a type whose hash is different but which was itself displaced onto the name's slot      *)
(* (clustering).  The cases in which ids differ although no other name of either document has the same hash are printed.                  *)
SameHashElsewhere(ids, n) == \E m \in DOMAIN ids \ {n} : H[m] = H[n]
ClusteringDifferences ==
  \A n \in DOMAIN ids1 \cap DOMAIN ids2 :
     ids1[n] = ids2[n] \/ SameHashElsewhere(ids1, n) \/ SameHashElsewhere(ids2, n)
     \/ Cardinality(DOMAIN ids1) + Cardinality(DOMAIN ids2) > 4
     \/ PrintT(ToJson([name |-> n, H |-> H, doc1 |-> ids1, doc2 |-> ids2]))
====================================================================================================
