\* First sentence of C39 on the documented configurations (module IniTrace); every configuration is also printed
\* as a JSON case for harness/ini.cc.
CONSTANTS Alphabet <- Alpha12
          MaxLen = 0
          Prefix <- PrefixNone
          Fixes <- AllFixes
          ValAlphabet <- ValAlpha2
          StrLen = 2
SPECIFICATION CSpec
INVARIANTS PrintParse PrintParsePinned
CONSTRAINT EmitConf
CHECK_DEADLOCK FALSE
