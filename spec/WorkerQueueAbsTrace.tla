--------------------------------------- MODULE WorkerQueueAbsTrace ---------------------------------------
(* Trace validation of abigail::workers::queue against WorkerQueueAbs (C32, and the queue part of C31). *)
(*                                                                                                       *)
(* T is the concatenation of recorded executions of one queue each:                                      *)
(*   {"e":"Reset"}                                                                                       *)
(*   H1 hook events of src/abg-workers.cc ordered by their sequence number "seq" (taken while the mutex  *)
(*   guarding the state change is held):  {"e":<action>,"w":<worker>,"t":<task>,"td":<len todo|-1>,     *)
(*   "dn":<len done|-1>} with <action> in Start (t = number of workers) Schedule Pop PerformBegin        *)
(*   PerformEnd DonePush NotifyBegin NotifyEnd SetDown WorkerExit WaitReturn                             *)
(*   {"e":"Summary",...}  what harness/wq.cc saw through the public API (optional)                       *)
(*   {"e":"End","exit","sig","timeout","tsan","needsum"}  how the process ended (recorded by the driver) *)
(*                                                                                                       *)
(* Each H1 event is the WorkerQueueAbs action of the same name with the logged arguments: if the guard   *)
(* of that action holds the effect is applied (and the logged queue lengths must agree with the new      *)
(* state); if not, the verdict of this step is "bad:<action>", and the rest of the execution is skipped  *)
(* up to its End / the next Reset, so that one TLC run reports every bad execution of a campaign.        *)
(* What the guards demand: Pop only of the head of todo (every Pop has an earlier Schedule, FIFO); a     *)
(* task goes Pop -> PerformBegin -> PerformEnd -> DonePush -> NotifyBegin -> NotifyEnd on one worker,    *)
(* once; nobody is between DonePush and NotifyEnd when another worker is (notifier sequential); SetDown  *)
(* only when todo is empty; WorkerExit only after SetDown; WaitReturn only when every worker exited; End *)
(* only after WaitReturn (a hang or time-out has none) with every task performed, completed, notified    *)
(* exactly once (WorkerQueueAbs!ExactlyOnce and AllDoneAtReturn are evaluated on the state WaitReturn    *)
(* leads to; being inductive under the guarded actions they need no evaluation at the other steps).      *)
EXTENDS WorkerQueueAbs, Json, IOUtils, TLC

T == ndJsonDeserialize(IOEnv.TRACE)

VARIABLES l,        \* position in T
          verdict,  \* verdict of the event just consumed
          sync,     \* FALSE after a bad verdict: the abstract state no longer tracks the execution
          st,       \* "fresh" (after Reset) | "running" | "closed" (after End)
          summ      \* a Summary event was seen in this execution

tvars == <<avars, l, verdict, sync, st, summ>>

Fresh == /\ nw = 0 /\ main = "sched" /\ todo = <<>> /\ done = <<>> /\ nsched = 0
         /\ ws = [w \in Workers |-> "absent"] /\ wt = [w \in Workers |-> 0]
         /\ performed = <<>> /\ notified = <<>>

FreshP == /\ nw' = 0 /\ main' = "sched" /\ todo' = <<>> /\ done' = <<>> /\ nsched' = 0       \* Fresh', spelled out for TLC
          /\ ws' = [w \in Workers |-> "absent"] /\ wt' = [w \in Workers |-> 0]
          /\ performed' = <<>> /\ notified' = <<>>

TInit == Fresh /\ l = 1 /\ verdict = "ok" /\ sync = TRUE /\ st = "fresh" /\ summ = FALSE

(* logged queue lengths against the state AFTER the step (primes written out: priming T[l] would read the next event) *)
LenOKP(ev) == (ev.td = -1 \/ ev.td = Len(todo')) /\ (ev.dn = -1 \/ ev.dn = Len(done'))

(* guard and effect of the abstract action a logged event names *)
StartG(n) == nw = 0 /\ n \in 1..MaxWorkers
StartE(n) == /\ nw' = n /\ ws' = [w \in Workers |-> IF w <= n THEN "idle" ELSE "absent"]
             /\ UNCHANGED <<main, todo, done, wt, nsched, performed, notified>>

G(ev) == CASE ev.e = "Start"        -> StartG(ev.t)
           [] ev.e = "Schedule"     -> nw > 0 /\ ScheduleG(ev.t)
           [] ev.e = "Pop"          -> PopG(ev.w, ev.t)
           [] ev.e = "PerformBegin" -> PerformBeginG(ev.w, ev.t)
           [] ev.e = "PerformEnd"   -> PerformEndG(ev.w, ev.t)
           [] ev.e = "DonePush"     -> DonePushG(ev.w, ev.t)
           [] ev.e = "NotifyBegin"  -> NotifyBeginG(ev.w, ev.t)
           [] ev.e = "NotifyEnd"    -> NotifyEndG(ev.w, ev.t)
           [] ev.e = "SetDown"      -> nw > 0 /\ SetDownG
           [] ev.e = "WorkerExit"   -> WorkerExitG(ev.w)
           [] ev.e = "WaitReturn"   -> WaitReturnG
E(ev) == CASE ev.e = "Start"        -> StartE(ev.t)
           [] ev.e = "Schedule"     -> ScheduleE(ev.t)
           [] ev.e = "Pop"          -> PopE(ev.w, ev.t)
           [] ev.e = "PerformBegin" -> PerformBeginE(ev.w, ev.t)
           [] ev.e = "PerformEnd"   -> PerformEndE(ev.w, ev.t)
           [] ev.e = "DonePush"     -> DonePushE(ev.w, ev.t)
           [] ev.e = "NotifyBegin"  -> NotifyBeginE(ev.w, ev.t)
           [] ev.e = "NotifyEnd"    -> NotifyEndE(ev.w, ev.t)
           [] ev.e = "SetDown"      -> SetDownE
           [] ev.e = "WorkerExit"   -> WorkerExitE(ev.w)
           [] ev.e = "WaitReturn"   -> WaitReturnE
H1Events == {"Start", "Schedule", "Pop", "PerformBegin", "PerformEnd", "DonePush", "NotifyBegin", "NotifyEnd",
             "SetDown", "WorkerExit", "WaitReturn"}

TReset == /\ T[l].e = "Reset"
          /\ FreshP /\ sync' = TRUE /\ st' = "fresh" /\ summ' = FALSE
          /\ verdict' = IF st = "running" THEN "bad:execution-not-closed" ELSE "ok"

THook == /\ T[l].e \in H1Events
         /\ st' = "running" /\ summ' = summ
         /\ IF ~sync THEN UNCHANGED <<avars, sync>> /\ verdict' = "ok"                      \* skipped: already reported
            ELSE IF G(T[l])
                 THEN /\ E(T[l])
                      /\ verdict' = IF ~LenOKP(T[l]) THEN "bad:queue-length-" \o T[l].e
                                    ELSE IF ~NotifierSequential' THEN "bad:invariant-NotifierSequential"
                                    ELSE IF T[l].e = "WaitReturn" /\ ~(ExactlyOnce /\ AllDoneAtReturn)' THEN "bad:not-all-done-at-return"
                                    ELSE "ok"
                      /\ sync' = (verdict' = "ok")
                 ELSE /\ UNCHANGED avars /\ sync' = FALSE
                      /\ verdict' = "bad:" \o T[l].e

One(n) == [i \in 1..n |-> 1]
SummaryVerdict(ev) ==
  IF main # "returned" THEN "bad:summary-without-wait-return"
  ELSE IF ev.W # nw THEN "bad:summary-workers"
  ELSE IF ev.N # nsched \/ ev.schedok # ev.N THEN "bad:summary-scheduled"
  ELSE IF ev.perf # One(nsched) THEN "bad:summary-performed-exactly-once"
  ELSE IF ev.done # done \/ \E t \in 1..nsched : Count(ev.done, t) # 1 THEN "bad:summary-completed-exactly-once"
  ELSE IF ev.notifier = 1 /\ ev.overlap # 0 THEN "bad:summary-notifier-overlap"
  ELSE IF ev.notifier = 1 /\ (ev.ncalls # nsched \/ ev.nseq # done) THEN "bad:summary-notifier-once-per-task"
  ELSE IF ev.notifier = 0 /\ ev.ncalls # 0 THEN "bad:summary-notifier-calls"
  ELSE "ok"

TSummary == /\ T[l].e = "Summary"
            /\ st' = "running" /\ summ' = TRUE /\ UNCHANGED avars
            /\ verdict' = IF sync THEN SummaryVerdict(T[l]) ELSE "ok"
            /\ sync' = (sync /\ verdict' = "ok")

EndVerdict(ev) ==
  IF ev.timeout \/ (sync /\ main # "returned") THEN "bad:no-wait-return"          \* hang, time-out, or died before returning
  ELSE IF ev.tsan > 0 THEN "bad:tsan"
  ELSE IF ev.exit # 0 \/ ev.sig # 0 THEN "bad:abnormal-exit"
  ELSE IF sync /\ ev.needsum /\ ~summ THEN "bad:no-summary"
  ELSE "ok"

TEnd == /\ T[l].e = "End"
        /\ st' = "closed" /\ UNCHANGED <<avars, sync, summ>>
        /\ verdict' = EndVerdict(T[l])

TNext == l <= Len(T) /\ l' = l + 1 /\ (TReset \/ THook \/ TSummary \/ TEnd)
TSpec == TInit /\ [][TNext]_tvars

Report == verdict = "ok" \/ PrintT(ToJson([i |-> l - 1, v |-> verdict]))
Accepted == TLCGet("stats").diameter - 1 = Len(T)
===========================================================================================================
