CONSTANTS
  FaithfulRegex = FALSE
  FaithfulHeaders = FALSE
  Mode = "ranges"
  Tier = "quick"
  MaxMem = 2
SPECIFICATION Spec
CHECK_DEADLOCK FALSE
INVARIANTS NeverHidesWithRange
