\* Default configuration: the whole alphabet, strings of <= 2 tokens, vectors of <= 2 strings (273 + 273^2 + 1 states).
\* checks/C27.py generates its own configurations (quick / thorough bounds).  To see TLC find a forgotten character,
\* override  EscSpecials <- NoPlus  after adding  NoPlus == PinnedSpecials \ {"+"}  to a copy of the module
\* (counterexample: strs = << <<"a", "+">> >>, pattern ^(a+)$ accepts "a" "aa" and refuses "a+").
CONSTANTS Tokens <- AllTokens
          MaxLen = 2
          MaxSet = 2
          EscSpecials <- PinnedSpecials
SPECIFICATION Spec
INVARIANTS GenFromStringsIsMembership InterpreterSane ForgottenCharacters
CHECK_DEADLOCK FALSE
