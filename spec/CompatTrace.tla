---------------------------------------- MODULE CompatTrace ---------------------------------------
(* Trace validation of abicompat on generated library pairs and applications (C29).                 *)
(*   {"e":"Compat","mode":"normal"|"weak","case":n,"defined":[names],"fns":[names],"used":[names],   *)
(*    "removed":[names],"changed":[names],"typeChanged":[names],"weakDecidable":bool,                *)
(*    "exit":n,"outlen":n,"reportedRemoved":[names],"reportedChanged":[names],"ret":"ok"}            *)
(* defined = interfaces of library version 1; used = those among them that are undefined symbols of  *)
(* the application (binutils nm -u, independent of libabigail); removed / changed = what the model    *)
(* (Abi!Expect) says about version 1 -> version 2 for ALL interfaces; typeChanged = the interfaces      *)
(* whose change comes from the definition of a named type (struct / union / enum); weakDecidable = all  *)
(* mutations of the pair are of that kind or none is.  The rest is what abicompat did.                  *)
(* normal: abicompat APP LIB1 LIB2;  weak: abicompat --weak-mode APP LIB2 (APP built against LIB1).     *)
(* The verdict restricts the model's expectation to the used interfaces -- Compat!VerdictOf on the      *)
(* restricted libraries -- and demands what the property states.                                        *)
EXTENDS Compat, IOUtils

(* ---- known findings of C29: placeholders, to be moved to KnownFindings.tla ------------------------ *)
(* The structural part identifies the failing inputs; the leading FALSE is the "listed" switch.          *)
(* the application has no undefined variable symbol at all and every reported interface it does not use is a variable *)
FnsOf(ev, S) == S \cap {ev.fns[k] : k \in 1..Len(ev.fns)}          \* ev.fns = the function interfaces (names are opaque strings)
KF_C29_unused_vars(ev, extra) == ev.undefVars = <<>> /\ extra # {} /\ FnsOf(ev, extra) = {}
(* the application has an undefined variable symbol, so the variables it holds through copy relocations are dropped: their change / removal is missed *)
KF_C29_copied_var_missed(ev, missed) == ev.undefVars # <<>> /\ missed # {}
                                        /\ missed \subseteq {ev.copied[k] : k \in 1..Len(ev.copied)}
(* weak mode: the mismatch is printed, only variables are concerned, the status is 0 *)
KF_C29_weak_var_status(ev, mism) == FALSE /\ ev.mode = "weak" /\ ev.exit = 0 /\ ev.outlen > 0 /\ FnsOf(ev, mism) = {}
(* ------------------------------------------------------------------------------------------------------ *)

T == ndJsonDeserialize(IOEnv.TRACE)
VARIABLES l, verdict

Bit(x, b) == (x \div b) % 2 = 1
ToSet(s) == {s[i] : i \in 1..Len(s)}
Terminated(ev) == ev.ret = "ok"

VNormal(ev) ==
  LET U == ToSet(ev.used)
      R == ToSet(ev.removed) \cap U
      C == (ToSet(ev.changed) \ ToSet(ev.removed)) \cap U
      rep == ToSet(ev.reportedRemoved) \cup ToSet(ev.reportedChanged)
      extra == rep \ U
  IN IF ~Terminated(ev) THEN "bad:crash"
     ELSE IF Bit(ev.exit, 1) \/ Bit(ev.exit, 2) THEN "bad:error-status"
     ELSE IF extra # {} THEN (IF KF_C29_unused_vars(ev, extra) THEN "kf:C29-unused-variables-judged" ELSE "bad:unused-interface-reported")
     ELSE IF R = {} /\ C = {} THEN (IF ev.exit = 0 /\ ev.outlen = 0 THEN "ok" ELSE "bad:verdict-affected-by-unused-interfaces")
     ELSE LET missed == (R \ ToSet(ev.reportedRemoved)) \cup (IF ToSet(ev.reportedChanged) \cap C = {} THEN C ELSE {})
              v == IF R # {} /\ ~(Bit(ev.exit, CHANGE) /\ Bit(ev.exit, INCOMPATIBLE)) THEN "bad:used-removal-not-incompatible"
                   ELSE IF ~(R \subseteq ToSet(ev.reportedRemoved)) THEN "bad:removed-used-interface-not-named"
                   ELSE IF ~Bit(ev.exit, CHANGE) THEN "bad:used-change-not-reported"
                   ELSE IF R = {} /\ ToSet(ev.reportedChanged) \cap C = {} THEN "bad:changed-used-interface-not-named"
                   ELSE "ok"
          IN IF v # "ok" /\ KF_C29_copied_var_missed(ev, missed) THEN "kf:C29-copy-relocated-variable-dropped" ELSE v

VWeak(ev) ==
  LET U == ToSet(ev.used)
      M == ToSet(ev.typeChanged) \cap U                               \* used interfaces whose named types differ from what APP expects
      A == (ToSet(ev.changed) \cup ToSet(ev.removed)) \cap U          \* used interfaces that differ in any way
      rep == ToSet(ev.reportedChanged)
  IN IF ~Terminated(ev) THEN "bad:crash"
     ELSE IF Bit(ev.exit, 1) \/ Bit(ev.exit, 2) THEN "bad:error-status"
     ELSE IF rep \ U # {} THEN (IF KF_C29_unused_vars(ev, rep \ U) THEN "kf:C29-unused-variables-judged" ELSE "bad:unused-interface-reported")
     ELSE IF A = {} THEN (IF ev.exit = 0 /\ ev.outlen = 0 THEN "ok" ELSE "bad:verdict-affected-by-unused-interfaces")
     ELSE IF ~ev.weakDecidable \/ M = {} THEN "ok"                   \* signature-only changes: the weak mode synthesizes the expected signature from LIB itself
     ELSE IF ev.outlen = 0 THEN (IF KF_C29_copied_var_missed(ev, M) THEN "kf:C29-copy-relocated-variable-dropped" ELSE "bad:weak-mismatch-not-reported")
     ELSE IF ~Bit(ev.exit, CHANGE)
          THEN (IF KF_C29_weak_var_status(ev, M) THEN "kf:C29-weak-variable-mismatch-status" ELSE "bad:weak-mismatch-reported-without-change-bit")
     ELSE "ok"

Verdict(ev) == CASE ev.e = "Compat" /\ ev.mode = "normal" -> VNormal(ev)
                 [] ev.e = "Compat" /\ ev.mode = "weak" -> VWeak(ev)
                 [] OTHER -> "bad:unknown-event"

TInit == l = 1 /\ verdict = "ok" /\ lib1 = <<>> /\ lib2 = <<>> /\ app = <<>> /\ mut = NoMut
TNext == /\ l <= Len(T) /\ l' = l + 1
         /\ verdict' = Verdict(T[l])
         /\ UNCHANGED vars
TSpec == TInit /\ [][TNext]_<<vars, l, verdict>>

Report == verdict = "ok" \/ PrintT(ToJson([i |-> l - 1, v |-> verdict]))
Accepted == TLCGet("stats").diameter - 1 = Len(T)
====================================================================================================
