CONSTANTS N = 3
  MaxRemoved = 0
  WithSup = FALSE
  WithRed = FALSE
SPECIFICATION Spec
INVARIANTS LeafAgrees
CHECK_DEADLOCK FALSE
