CONSTANTS
  N = 4
  MaxKids = 2
  MaxEdges = 6
  Kinds = {}
  AllowDecl = FALSE
  GraphClass = "consistent"
  OrderClass = "scc"
  CycleCheck = "pair"
  Pass2Cancel = "fresh"
  Outermost = "flush"
  PropagateDespiteCycle = TRUE
  Pass2ClearsDeps = FALSE
SPECIFICATION Spec
CHECK_DEADLOCK FALSE
INVARIANTS CanonIffBisim
