\* generator: tables of <= 3 rows over addresses x kinds x publicness
CONSTANT Plans <- PlanGenAlias3
SPECIFICATION Spec
CONSTRAINT GenEmit
CHECK_DEADLOCK FALSE
