---- MODULE IniTrace_TTrace_1790035557 ----
EXTENDS Sequences, TLCExt, IniTrace, Toolbox, Naturals, TLC

_expression ==
    LET IniTrace_TEExpression == INSTANCE IniTrace_TEExpression
    IN IniTrace_TEExpression!expression
----

_trace ==
    LET IniTrace_TETrace == INSTANCE IniTrace_TETrace
    IN IniTrace_TETrace!trace
----

_inv ==
    ~(
        TLCGet("level") = Len(_TETrace)
        /\
        verdict = ("ok")
        /\
        conf = (<<>>)
        /\
        text = (<<"s", "]", "x", "=", "{", "x", "\\", "\n", "\n", "\\", "}">>)
        /\
        l = (0)
    )
----

_init ==
    /\ text = _TETrace[1].text
    /\ l = _TETrace[1].l
    /\ verdict = _TETrace[1].verdict
    /\ conf = _TETrace[1].conf
----

_next ==
    /\ \E i,j \in DOMAIN _TETrace:
        /\ \/ /\ j = i + 1
              /\ i = TLCGet("level")
        /\ text  = _TETrace[i].text
        /\ text' = _TETrace[j].text
        /\ l  = _TETrace[i].l
        /\ l' = _TETrace[j].l
        /\ verdict  = _TETrace[i].verdict
        /\ verdict' = _TETrace[j].verdict
        /\ conf  = _TETrace[i].conf
        /\ conf' = _TETrace[j].conf

\* Uncomment the ASSUME below to write the states of the error trace
\* to the given file in Json format. Note that you can pass any tuple
\* to `JsonSerialize`. For example, a sub-sequence of _TETrace.
    \* ASSUME
    \*     LET J == INSTANCE Json
    \*         IN J!JsonSerialize("IniTrace_TTrace_1790035557.json", _TETrace)

=============================================================================

 Note that you can extract this module `IniTrace_TEExpression`
  to a dedicated file to reuse `expression` (the module in the 
  dedicated `IniTrace_TEExpression.tla` file takes precedence 
  over the module `IniTrace_TEExpression` below).

---- MODULE IniTrace_TEExpression ----
EXTENDS Sequences, TLCExt, IniTrace, Toolbox, Naturals, TLC

expression == 
    [
        \* To hide variables of the `IniTrace` spec from the error trace,
        \* remove the variables below.  The trace will be written in the order
        \* of the fields of this record.
        text |-> text
        ,l |-> l
        ,verdict |-> verdict
        ,conf |-> conf
        
        \* Put additional constant-, state-, and action-level expressions here:
        \* ,_stateNumber |-> _TEPosition
        \* ,_textUnchanged |-> text = text'
        
        \* Format the `text` variable as Json value.
        \* ,_textJson |->
        \*     LET J == INSTANCE Json
        \*     IN J!ToJson(text)
        
        \* Lastly, you may build expressions over arbitrary sets of states by
        \* leveraging the _TETrace operator.  For example, this is how to
        \* count the number of times a spec variable changed up to the current
        \* state in the trace.
        \* ,_textModCount |->
        \*     LET F[s \in DOMAIN _TETrace] ==
        \*         IF s = 1 THEN 0
        \*         ELSE IF _TETrace[s].text # _TETrace[s-1].text
        \*             THEN 1 + F[s-1] ELSE F[s-1]
        \*     IN F[_TEPosition - 1]
    ]

=============================================================================



Parsing and semantic processing can take forever if the trace below is long.
 In this case, it is advised to uncomment the module below to deserialize the
 trace from a generated binary file.

\*
\*---- MODULE IniTrace_TETrace ----
\*EXTENDS IOUtils, IniTrace, TLC
\*
\*trace == IODeserialize("IniTrace_TTrace_1790035557.bin", TRUE)
\*
\*=============================================================================
\*

---- MODULE IniTrace_TETrace ----
EXTENDS IniTrace, TLC

trace == 
    <<
    ([verdict |-> "ok",conf |-> <<>>,text |-> <<"s", "]", "x", "=", "{">>,l |-> 0]),
    ([verdict |-> "ok",conf |-> <<>>,text |-> <<"s", "]", "x", "=", "{", "x">>,l |-> 0]),
    ([verdict |-> "ok",conf |-> <<>>,text |-> <<"s", "]", "x", "=", "{", "x", "\\">>,l |-> 0]),
    ([verdict |-> "ok",conf |-> <<>>,text |-> <<"s", "]", "x", "=", "{", "x", "\\", "\n">>,l |-> 0]),
    ([verdict |-> "ok",conf |-> <<>>,text |-> <<"s", "]", "x", "=", "{", "x", "\\", "\n", "\n">>,l |-> 0]),
    ([verdict |-> "ok",conf |-> <<>>,text |-> <<"s", "]", "x", "=", "{", "x", "\\", "\n", "\n", "\\">>,l |-> 0]),
    ([verdict |-> "ok",conf |-> <<>>,text |-> <<"s", "]", "x", "=", "{", "x", "\\", "\n", "\n", "\\", "}">>,l |-> 0])
    >>
----


=============================================================================

---- CONFIG IniTrace_TTrace_1790035557 ----
CONSTANTS
    Alphabet <- Alpha8
    MaxLen = 6
    Prefix <- PrefixTuple
    Fixes <- AllFixes
    ValAlphabet <- ValAlpha
    StrLen = 1

INVARIANT
    _inv

CHECK_DEADLOCK
    \* CHECK_DEADLOCK off because of PROPERTY or INVARIANT above.
    FALSE

INIT
    _init

NEXT
    _next

CONSTANT
    _TETrace <- _trace

ALIAS
    _expression
=============================================================================
\* Generated on Tue Sep 22 00:07:01 UTC 2026