CONSTANTS Contents <- ContentsLarge
          MaxCalls = 99
SPECIFICATION TSpec
INVARIANTS Report StateOk
POSTCONDITION Accepted
CHECK_DEADLOCK FALSE
