---- MODULE Ini_TTrace_1790033847 ----
EXTENDS Sequences, TLCExt, Ini, Toolbox, Naturals, TLC

_expression ==
    LET Ini_TEExpression == INSTANCE Ini_TEExpression
    IN Ini_TEExpression!expression
----

_trace ==
    LET Ini_TETrace == INSTANCE Ini_TETrace
    IN Ini_TETrace!trace
----

_inv ==
    ~(
        TLCGet("level") = Len(_TETrace)
        /\
        conf = (<<>>)
        /\
        text = (<<"s", "]", "x", "=", "=">>)
    )
----

_init ==
    /\ conf = _TETrace[1].conf
    /\ text = _TETrace[1].text
----

_next ==
    /\ \E i,j \in DOMAIN _TETrace:
        /\ \/ /\ j = i + 1
              /\ i = TLCGet("level")
        /\ conf  = _TETrace[i].conf
        /\ conf' = _TETrace[j].conf
        /\ text  = _TETrace[i].text
        /\ text' = _TETrace[j].text

\* Uncomment the ASSUME below to write the states of the error trace
\* to the given file in Json format. Note that you can pass any tuple
\* to `JsonSerialize`. For example, a sub-sequence of _TETrace.
    \* ASSUME
    \*     LET J == INSTANCE Json
    \*         IN J!JsonSerialize("Ini_TTrace_1790033847.json", _TETrace)

=============================================================================

 Note that you can extract this module `Ini_TEExpression`
  to a dedicated file to reuse `expression` (the module in the 
  dedicated `Ini_TEExpression.tla` file takes precedence 
  over the module `Ini_TEExpression` below).

---- MODULE Ini_TEExpression ----
EXTENDS Sequences, TLCExt, Ini, Toolbox, Naturals, TLC

expression == 
    [
        \* To hide variables of the `Ini` spec from the error trace,
        \* remove the variables below.  The trace will be written in the order
        \* of the fields of this record.
        conf |-> conf
        ,text |-> text
        
        \* Put additional constant-, state-, and action-level expressions here:
        \* ,_stateNumber |-> _TEPosition
        \* ,_confUnchanged |-> conf = conf'
        
        \* Format the `conf` variable as Json value.
        \* ,_confJson |->
        \*     LET J == INSTANCE Json
        \*     IN J!ToJson(conf)
        
        \* Lastly, you may build expressions over arbitrary sets of states by
        \* leveraging the _TETrace operator.  For example, this is how to
        \* count the number of times a spec variable changed up to the current
        \* state in the trace.
        \* ,_confModCount |->
        \*     LET F[s \in DOMAIN _TETrace] ==
        \*         IF s = 1 THEN 0
        \*         ELSE IF _TETrace[s].conf # _TETrace[s-1].conf
        \*             THEN 1 + F[s-1] ELSE F[s-1]
        \*     IN F[_TEPosition - 1]
    ]

=============================================================================



Parsing and semantic processing can take forever if the trace below is long.
 In this case, it is advised to uncomment the module below to deserialize the
 trace from a generated binary file.

\*
\*---- MODULE Ini_TETrace ----
\*EXTENDS IOUtils, Ini, TLC
\*
\*trace == IODeserialize("Ini_TTrace_1790033847.bin", TRUE)
\*
\*=============================================================================
\*

---- MODULE Ini_TETrace ----
EXTENDS Ini, TLC

trace == 
    <<
    ([conf |-> <<>>,text |-> <<"s", "]", "x", "=">>]),
    ([conf |-> <<>>,text |-> <<"s", "]", "x", "=", "=">>])
    >>
----


=============================================================================

---- CONFIG Ini_TTrace_1790033847 ----
CONSTANTS
    Alphabet <- Alpha12
    MaxLen = 3
    Prefix <- PrefixValue
    Fixes = { }
    ValAlphabet <- ValAlpha
    StrLen = 1

INVARIANT
    _inv

CHECK_DEADLOCK
    \* CHECK_DEADLOCK off because of PROPERTY or INVARIANT above.
    FALSE

INIT
    _init

NEXT
    _next

CONSTANT
    _TETrace <- _trace

ALIAS
    _expression
=============================================================================
\* Generated on Mon Sep 21 23:37:30 UTC 2026