CONSTANTS
  FaithfulRegex = FALSE
  FaithfulHeaders = FALSE
  Mode = "ifaces"
  Tier = "thorough"
  MaxMem = 4
SPECIFICATION Spec
CHECK_DEADLOCK FALSE
INVARIANTS FrameUnmatched HidesExactlyOne
