\* trace validation: TRACE=<ndjson> in the environment, -workers 1.  The constants only feed PkgDiff's state machine, which is at rest here.
CONSTANTS Paths = {1}
          Layouts <- DefaultLayouts
          Size <- DefaultSize
          PairBits <- DefaultPairBits
          Vers1 = {"absent"}
          Vers2 = {"absent"}
          MaxWorkers = 1
          Fixed = TRUE
          FixedKeys = TRUE
SPECIFICATION TSpec
INVARIANT Report
POSTCONDITION Accepted
CHECK_DEADLOCK FALSE
