CONSTANTS MaxTypes = 8
  MaxMembers = 4
  MaxIfaces = 4
  MutCats = {"breaking"}
  MinMuts = 1
  MaxMuts = 1
  Lang = "c"
  BaseIds = {1,2,3,4,5,6,7,8,9,10}
  FixedBudget = FALSE
SPECIFICATION Spec
CONSTRAINT Emit
CHECK_DEADLOCK FALSE
