------------------------------------------ MODULE Canon ------------------------------------------
(* Type canonicalization of libabigail (src/abg-ir.cc: canonicalize, type_base::get_canonical_type_for,    *)
(* the equals() overloads of class_decl / class_or_union, return_comparison_result, and                      *)
(* environment::priv::{mark_dependant_types, propagate_ct, confirm_ct_propagation, cancel_ct_propagation}    *)
(* of src/abg-ir-priv.h) as a state machine, together with the property C20 states about it:                 *)
(*                                                                                                          *)
(*     at quiescence, two same-named types have the same canonical type  <=>  they are structurally equal     *)
(*                                                                                                          *)
(* where "structurally equal" is the greatest bisimulation on the type graph (Bisim, as in Abi.tla).         *)
(*                                                                                                          *)
(* Type graphs.  Nodes 1..N; a node is [k, n, d, kids]:                                                     *)
(*   k = "struct"   n = name, d = declaration-only (then kids = <<>>), kids = the types of its data members   *)
(*                  (the number of members stands for the size / the member names and offsets)               *)
(*   k = "ptr"      kids = <<pointed-to>>            k = "typedef"  n = name, kids = <<underlying>>           *)
(* Every graph over these nodes is generated (recursive ones, same-named different structs, decl-only next   *)
(* to defined), up to renaming of nodes (nodes are generated in non-decreasing rank order) and of names.     *)
(*                                                                                                          *)
(* The algorithm, as coded (line references: abg-ir.cc of libabigail 2.1):                                   *)
(*   BeginCanon(t)   canonicalize(t): nothing to do if t already carries a (propagated) canonical type;       *)
(*                   otherwise the candidates are the canonical types of t's name, most recent first.         *)
(*   CompareStep     one step of `candidate == t`: try_canonical_compare (both canonical => pointer compare), *)
(*                   pointers / typedefs are looked through without book-keeping, a pair of structs is        *)
(*                   compared member-wise under a stack of operand pairs.  Cycle detection is                 *)
(*                   is_comparison_cycle_detected: l OR r is *somewhere* in the set of classes being          *)
(*                   compared (CycleCheck = "set"; "pair" is the ideal: the pair (l, r) is on the stack);     *)
(*                   a detected cycle returns true and marks the right operands pushed after r as depending   *)
(*                   on r (mark_dependant_types_compared_until).                                              *)
(*   Propagate       return_comparison_result(l, r, true): r gets l's canonical type if it has none.          *)
(*   Track/Confirm/Cancel   the book-keeping of return_comparison_result after the pair is popped:            *)
(*                   true, r depends on a recursive type, stack not empty, r propagated  -> r is non-confirmed  *)
(*                   true, stack empty   -> confirm_ct_propagation(r)                                         *)
(*                   false               -> cancel_ct_propagation(r) (+ r's own tentative canonical type)     *)
(*                   A struct (class_decl) is returned twice: equals(class_or_union) first, then the           *)
(*                   class_decl part, which starts with maybe_cancel_propagated_canonical_type(r) (Pass2).    *)
(*   EndCanon(t)     t's canonical type is the equal candidate, or t itself (appended to canonMap).           *)
(*                                                                                                          *)
(* Switches (CONSTANTS).  Three of them select, per defect the model exposed, the code as written or its repair:   *)
(*   CycleCheck   "set"   as coded: is_comparison_cycle_detected = l OR r is somewhere among the classes being        *)
(*                        compared -- (l, r') with r' another type than the r that l is being compared with is       *)
(*                        "a cycle" and assumed equal (TLC: 3 nodes; real library: two translation units)             *)
(*                "pair"  repaired: the pair (l, r) is on the operand stack                                          *)
(*   Pass2Cancel  "flag"  as coded: the class_decl pass clears r's canonical type whenever canonical_type_propagated_ *)
(*                        is set; the flag is never reset, so this also hits types whose propagation was confirmed     *)
(*                        long ago: a canonicalized type loses its canonical type (TLC: 3 nodes)                      *)
(*                "fresh" repaired: only a canonical type r received in the class_or_union pass of this comparison,   *)
(*                        and the flag is reset when the canonical type becomes final (confirmation, canonicalize());  *)
(*                "freshsticky" = the first half of that repair only (the flag stays sticky)                          *)
(*   Outermost    "coded" as coded: at the outermost return confirm_ct_propagation(r) only drops the dependency on r  *)
(*                        and cancel_ct_propagation(r) only what depends on r: a type depending on an *inner*          *)
(*                        recursive type stays non-confirmed for ever (NoStale fails).  With a sticky flag a later      *)
(*                        failing comparison of that inner type then takes its (long since valid) canonical type away   *)
(*                        (CanonStale5.cfg: "pair" + "freshsticky" + "coded" is refuted with 5 nodes, 22.8 M states);   *)
(*                        with the flag reset the stale entries are harmless within the bounds checked                 *)
(*                "flush" repaired: nothing tentative survives the outermost comparison                              *)
(* GraphClass "any" | "consistent" (what one C translation unit can contain: from any type at most one struct /      *)
(* typedef per name is reachable), OrderClass "any" | "scc" (sub-types first, any order inside a strongly connected  *)
(* component: what the readers' late canonicalization mostly does), PropagateDespiteCycle (mutant: a detected cycle   *)
(* records no dependency and nothing is ever cancelled -- TLC must refute CanonIffBisim, otherwise the check is       *)
(* vacuous).  Canon.cfg & co. = all three repairs: CanonIffBisim holds.  CanonAsCoded.cfg = the code: refuted.        *)
EXTENDS Naturals, Integers, Sequences, FiniteSets, TLC, Json

CONSTANTS N,                      \* number of type nodes
          MaxKids,                \* members per struct
          Kinds,                  \* subset of {"ptr", "typedef"}: node kinds besides "struct"
          MaxEdges,               \* bound on the total number of members (edges out of structs)
          AllowDecl,              \* declaration-only structs are generated
          GraphClass, OrderClass, CycleCheck, Pass2Cancel, Outermost, PropagateDespiteCycle,
          Pass2ClearsDeps         \* algorithm mutant: the class_decl pass also forgets that r depends on a recursive type (FALSE: the code)

Names == {1, 2}
Nodes == 1..N

VARIABLES g,            \* the type graph (built first, then constant)
          phase,        \* "build" | "run"
          bis,          \* Bisim(g), computed once when the graph is complete
          canon,        \* [Nodes -> Nodes \cup {0}]   0 = no canonical type
          canonMap,     \* [key -> Seq(Nodes)]  the canonical types per name (environment::canonical_types_)
          done,         \* types canonicalize() was called for
          cur,          \* the type being canonicalized (0: quiescent)
          cands,        \* remaining candidates of canonMap[key(cur)], most recent first
          mode,         \* "idle" | "pick" | "cmp" | "ret" | "end"
          stack,        \* Seq of [l, r, i, ph, had]: pairs being compared, next member index, pass (1 class_or_union,
                        \* 2 class_decl), had: r carried a canonical type when the pair was first pushed
          rv,           \* value being returned by the top pair ("T" / "F"; "" otherwise)
          res,          \* the canonical type found for cur (mode "end")
          propagated,   \* types whose canonical_type_propagated_ flag is set
          deps,         \* [Nodes -> SUBSET Nodes]  depends_on_recursive_type_
          nonConf,      \* types_with_non_confirmed_propagated_ct_
          aborted       \* an ABG_ASSERT of the modelled code would have fired
gv == <<g, phase, bis>>
cv == <<canon, canonMap, done>>
sv == <<cur, cands, mode, stack, rv, res>>
pv == <<propagated, deps, nonConf, aborted>>
vars == <<gv, cv, sv, pv>>

Range(s) == {s[j] : j \in 1..Len(s)}
Reverse(s) == [j \in 1..Len(s) |-> s[Len(s) + 1 - j]]

(* ---- graphs ------------------------------------------------------------------------------------------- *)
KidSeqs(lo, hi) == UNION {[1..m -> Nodes] : m \in lo..hi}
NodeAlts ==
       [k : {"struct"}, n : Names, d : {FALSE}, kids : KidSeqs(0, MaxKids)]
  \cup (IF AllowDecl THEN [k : {"struct"}, n : Names, d : {TRUE}, kids : {<<>>}] ELSE {})
  \cup (IF "ptr" \in Kinds THEN [k : {"ptr"}, n : {0}, d : {FALSE}, kids : KidSeqs(1, 1)] ELSE {})
  \cup (IF "typedef" \in Kinds THEN [k : {"typedef"}, n : Names, d : {FALSE}, kids : KidSeqs(1, 1)] ELSE {})
Rank(nd) == (CASE nd.k = "struct" -> 0 [] nd.k = "ptr" -> 100 [] OTHER -> 200) + 10 * nd.n + (IF nd.d THEN 5 ELSE 0) + Len(nd.kids)

RECURSIVE SumKids(_, _)
SumKids(gg, j) == IF j = 0 THEN 0 ELSE SumKids(gg, j - 1) + (IF gg[j].k = "struct" THEN Len(gg[j].kids) ELSE 0)
Edges(gg) == SumKids(gg, Len(gg))

RECURSIVE ReachFrom(_, _)
ReachFrom(gg, S) == LET M == S \cup UNION {Range(gg[i].kids) : i \in S} IN IF M = S THEN S ELSE ReachFrom(gg, M)

(* pointers and typedefs are looked through; every chain of them must end at a struct *)
RECURSIVE EndsAtStruct(_, _, _)
EndsAtStruct(gg, i, fuel) == IF gg[i].k = "struct" THEN TRUE                  \* (IF, not \/: inside an action TLC explores both disjuncts)
                             ELSE IF fuel = 0 THEN FALSE ELSE EndsAtStruct(gg, gg[i].kids[1], fuel - 1)
RECURSIVE PtrDepth(_, _, _)
PtrDepth(gg, i, fuel) == IF gg[i].k = "ptr" /\ fuel > 0 THEN 1 + PtrDepth(gg, gg[i].kids[1], fuel - 1) ELSE 0
RECURSIVE Pointee(_, _, _)
Pointee(gg, i, fuel) == IF gg[i].k = "ptr" /\ fuel > 0 THEN Pointee(gg, gg[i].kids[1], fuel - 1) ELSE i
(* the key of environment::canonical_types_: the internal pretty representation ("struct A", "struct A*", "typedef T") *)
KeyOf(gg, i) == LET f == Pointee(gg, i, N) IN <<PtrDepth(gg, i, N), gg[f].k, gg[f].n>>

NameSymmetric(gg, kind) == (\E i \in Nodes : gg[i].k = kind /\ gg[i].n = 2) => (\E i \in Nodes : gg[i].k = kind /\ gg[i].n = 1)
Consistent(gg) == \A x \in Nodes : \A a, b \in ReachFrom(gg, {x}) :
                     (gg[a].k = gg[b].k /\ gg[a].k # "ptr" /\ gg[a].n = gg[b].n) => a = b
WellFormed(gg) == /\ \A i \in Nodes : EndsAtStruct(gg, i, N)
                  /\ NameSymmetric(gg, "struct") /\ NameSymmetric(gg, "typedef")
                  /\ (GraphClass = "consistent" => Consistent(gg))

(* ---- structural equality: the greatest bisimulation (as Abi!Bisim, on one graph) ----------------------- *)
LocalEq(a, b) == a.k = b.k /\ a.n = b.n /\ a.d = b.d /\ Len(a.kids) = Len(b.kids)
ChildPairs(a, b) == {<<a.kids[j], b.kids[j]>> : j \in 1..Len(a.kids)}
RECURSIVE Refine(_, _)
Refine(gg, R) == LET M == {p \in R : ChildPairs(gg[p[1]], gg[p[2]]) \subseteq R} IN IF M = R THEN R ELSE Refine(gg, M)
Bisim(gg) == Refine(gg, {p \in Nodes \X Nodes : LocalEq(gg[p[1]], gg[p[2]])})

(* ---- initial state and the builder -------------------------------------------------------------------- *)
Init == /\ g = <<>> /\ phase = "build" /\ bis = {}
        /\ canon = [i \in Nodes |-> 0] /\ canonMap = <<>> /\ done = {}
        /\ cur = 0 /\ cands = <<>> /\ mode = "idle" /\ stack = <<>> /\ rv = "" /\ res = 0
        /\ propagated = {} /\ deps = [i \in Nodes |-> {}] /\ nonConf = {} /\ aborted = FALSE

AddNode == /\ phase = "build"
           /\ \E nd \in NodeAlts :
                LET gg == Append(g, nd) IN
                /\ (g # <<>> => Rank(g[Len(g)]) <= Rank(nd))
                /\ Edges(gg) <= MaxEdges
                /\ g' = gg
                /\ IF Len(gg) < N THEN UNCHANGED <<phase, bis, canonMap>>
                   ELSE /\ WellFormed(gg)
                        /\ phase' = "run" /\ bis' = Bisim(gg)
                        /\ canonMap' = [key \in {KeyOf(gg, i) : i \in Nodes} |-> <<>>]
           /\ UNCHANGED <<canon, done, sv, pv>>

(* ---- the comparison ----------------------------------------------------------------------------------- *)
(* try_canonical_compare + the equals() overloads of pointer_type_def and typedef_decl: no stack, no book-keeping.  *)
(* sp: the operands are compared as shared pointers first (pointer_type_def: l.get_pointed_to_type() ==              *)
(* r.get_pointed_to_type() returns true on identical objects); data members and typedefs dereference first.         *)
(* Result: "T", "F", or "S": a pair of structs that must be compared structurally.                                 *)
RECURSIVE Resolve(_, _, _)
Resolve(l, r, sp) ==
  IF sp /\ l = r THEN [v |-> "T", l |-> l, r |-> r]
  ELSE IF g[l].k # g[r].k THEN [v |-> "F", l |-> l, r |-> r]
  ELSE IF canon[l] # 0 /\ canon[r] # 0 THEN [v |-> IF canon[l] = canon[r] THEN "T" ELSE "F", l |-> l, r |-> r]
  ELSE CASE g[l].k = "ptr" -> Resolve(g[l].kids[1], g[r].kids[1], TRUE)
         [] g[l].k = "typedef" -> IF g[l].n # g[r].n THEN [v |-> "F", l |-> l, r |-> r]
                                  ELSE Resolve(g[l].kids[1], g[r].kids[1], FALSE)
         [] OTHER -> [v |-> "S", l |-> l, r |-> r]

CycleDetected(l, r, stk) ==
  IF CycleCheck = "pair" THEN \E j \in 1..Len(stk) : stk[j].l = l /\ stk[j].r = r
  ELSE \E j \in 1..Len(stk) : stk[j].l \in {l, r} \/ stk[j].r \in {l, r}           \* classes_being_compared_ is one set

(* mark_dependant_types(r, right_type_comp_operands_): everything pushed after the first occurrence of r depends on r *)
MarkDeps(r, stk) ==
  LET ps == {j \in 1..Len(stk) : stk[j].r = r} IN
  IF ps = {} \/ PropagateDespiteCycle THEN deps
  ELSE LET p == CHOOSE j \in ps : \A q \in ps : j <= q
           marked == {stk[j].r : j \in (p + 1)..Len(stk)}
       IN [t \in Nodes |-> IF t \in marked THEN deps[t] \cup {r} ELSE deps[t]]

(* hand the value of a finished (sub-)comparison to whoever waits for it; stk is the stack after popping *)
Deliver(v, stk) ==
  IF stk = <<>>
    THEN /\ stack' = <<>> /\ rv' = ""
         /\ IF v THEN (mode' = "end" /\ res' = Head(cands) /\ cands' = cands)
                 ELSE (mode' = "pick" /\ res' = 0 /\ cands' = Tail(cands))
    ELSE LET f == stk[Len(stk)] IN
         /\ UNCHANGED <<res, cands>>
         /\ IF v THEN /\ stack' = [stk EXCEPT ![Len(stk)].i = @ + 1]
                      /\ IF f.i + 1 > Len(g[f.l].kids) THEN (mode' = "ret" /\ rv' = "T")      \* all members compared equal
                                                        ELSE (mode' = "cmp" /\ rv' = "")
                 ELSE (stack' = stk /\ mode' = "ret" /\ rv' = "F")

(* equals(class_decl) / equals(class_or_union) up to the point where the pair is pushed *)
StructPair(l, r, stk) ==
  IF g[l].d \/ g[r].d                           \* C: a decl-only struct equals only a decl-only struct of the same name
    THEN Deliver(g[l].d = g[r].d /\ g[l].n = g[r].n, stk) /\ UNCHANGED deps
  ELSE IF CycleDetected(l, r, stk)              \* RETURN_TRUE_IF_COMPARISON_CYCLE_DETECTED: before anything is looked at
    THEN deps' = MarkDeps(r, stk) /\ Deliver(TRUE, stk)
  ELSE IF ~(g[l].n = g[r].n /\ Len(g[l].kids) = Len(g[r].kids))     \* name / size: plain return false
    THEN Deliver(FALSE, stk) /\ UNCHANGED deps
  ELSE /\ stack' = Append(stk, [l |-> l, r |-> r, i |-> 1, ph |-> 1, had |-> canon[r] # 0])
       /\ IF g[l].kids = <<>> THEN (mode' = "ret" /\ rv' = "T") ELSE (mode' = "cmp" /\ rv' = "")
       /\ UNCHANGED <<res, cands, deps>>

Dispatch(x, y, stk) ==
  LET q == Resolve(x, y, FALSE) IN
  CASE q.v = "T" -> Deliver(TRUE, stk) /\ UNCHANGED deps
    [] q.v = "F" -> Deliver(FALSE, stk) /\ UNCHANGED deps
    [] OTHER -> StructPair(q.l, q.r, stk)

BeginCanon(t) ==
  /\ phase = "run" /\ cur = 0 /\ t \notin done
  /\ (OrderClass = "scc" => \A c \in Range(g[t].kids) : c \in done \/ t \in ReachFrom(g, {c}))
  /\ IF canon[t] # 0 \/ g[t].d              \* canonicalize(): already has one / is_non_canonicalized_type (decl-only class)
       THEN /\ done' = done \cup {t} /\ UNCHANGED <<canon, canonMap, sv>>
            /\ propagated' = IF Pass2Cancel = "fresh" THEN propagated \ {t} ELSE propagated     \* repaired: the flag ends here
       ELSE /\ cur' = t /\ cands' = Reverse(canonMap[KeyOf(g, t)]) /\ mode' = "pick"
            /\ UNCHANGED <<cv, stack, rv, res, propagated>>
  /\ UNCHANGED <<gv, deps, nonConf, aborted>>

CompareStep ==
  /\ phase = "run" /\ cur # 0
  /\ \/ /\ mode = "pick" /\ cands = <<>>                                              \* no candidate equals cur
        /\ mode' = "end" /\ res' = cur /\ UNCHANGED <<cands, stack, rv, deps>>
     \/ /\ mode = "pick" /\ cands # <<>>
        /\ Dispatch(Head(cands), cur, <<>>)
     \/ /\ mode = "cmp"
        /\ LET f == stack[Len(stack)] IN Dispatch(g[f.l].kids[f.i], g[f.r].kids[f.i], stack)
  /\ UNCHANGED <<gv, cv, cur, propagated, nonConf, aborted>>

(* ---- return_comparison_result -------------------------------------------------------------------------- *)
Top == stack[Len(stack)]
MayPropagate == mode = "ret" /\ rv = "T" /\ canon[Top.l] # 0 /\ canon[Top.r] = 0

Propagate ==                                             \* maybe_propagate_canonical_type -> propagate_ct
  /\ MayPropagate
  /\ canon' = [canon EXCEPT ![Top.r] = canon[Top.l]]
  /\ propagated' = propagated \cup {Top.r}
  /\ UNCHANGED <<gv, canonMap, done, sv, deps, nonConf, aborted>>

(* the book-keeping as functions of a record [c canon, p propagated, d deps, n nonConf, a aborted] *)
Now == [c |-> canon, p |-> propagated, d |-> deps, n |-> nonConf, a |-> aborted]
ClearProp(s, t) == IF t \in s.p THEN [s EXCEPT !.c[t] = 0, !.p = @ \ {t}] ELSE s
TrackOp(s, r) == [s EXCEPT !.n = @ \cup {r}]
ConfirmOp(s, r) ==
  LET d1 == [t \in Nodes |-> IF t \in s.n THEN s.d[t] \ {r} ELSE s.d[t]]
      s1 == [s EXCEPT !.d = d1, !.n = {t \in s.n : d1[t] # {}}, !.a = s.a \/ \E t \in s.n : s.d[t] = {},
                      !.p = IF Pass2Cancel = "fresh" THEN @ \ {t \in s.n : d1[t] = {}} ELSE @]    \* repaired: confirmed = no longer "propagated"
  IN IF s1.d[r] # {} THEN [s1 EXCEPT !.d[r] = {}, !.n = @ \ {r}] ELSE s1
RECURSIVE Collect(_, _, _)
Collect(s, targets, acc) == LET new == {t \in s.n \ acc : s.d[t] \cap targets # {}} IN
                            IF new = {} THEN acc ELSE Collect(s, new, acc \cup new)
CancelOp(s, r) ==
  IF PropagateDespiteCycle THEN s ELSE
  LET S == Collect(s, {r}, {})
      hit == {t \in S : s.c[t] # 0}
      s1 == [s EXCEPT !.c = [t \in Nodes |-> IF t \in hit /\ t \in s.p THEN 0 ELSE s.c[t]],
                      !.p = @ \ hit,
                      !.d = [t \in Nodes |-> IF t \in hit THEN {} ELSE s.d[t]],
                      !.n = @ \ S]
  IN IF s1.d[r] # {} THEN [ClearProp(s1, r) EXCEPT !.d[r] = {}, !.n = @ \ {r}] ELSE s1
(* repaired end of the outermost comparison: no tentative state is left behind *)
FlushOp(s, ok) ==
  IF Outermost # "flush" THEN s
  ELSE IF ok THEN [s EXCEPT !.d = [t \in Nodes |-> {}], !.n = {}, !.p = IF Pass2Cancel = "fresh" THEN @ \ s.n ELSE @]
  ELSE [s EXCEPT !.c = [t \in Nodes |-> IF t \in s.n /\ t \in s.p THEN 0 ELSE s.c[t]], !.p = @ \ s.n,
                 !.d = [t \in Nodes |-> {}], !.n = {}]
Pass2Op(s, f) ==                                         \* maybe_cancel_propagated_canonical_type(r) at the start of the class_decl pass
  IF f.r \in s.p /\ (Pass2Cancel = "flag" \/ ~f.had)
  THEN [ClearProp(s, f.r) EXCEPT !.n = @ \ {f.r}, !.d[f.r] = IF Pass2ClearsDeps THEN {} ELSE @] ELSE s

Settle(kind) ==                                           \* pop the pair, do the book-keeping `kind`, continue
  /\ mode = "ret" /\ ~MayPropagate
  /\ LET f == Top
         stk == SubSeq(stack, 1, Len(stack) - 1)
         k == IF rv = "T" /\ deps[f.r] # {} /\ stk # <<>> /\ f.r \in propagated THEN "track"
              ELSE IF rv = "T" /\ stk = <<>> THEN "confirm"
              ELSE IF rv = "F" THEN "cancel" ELSE "none"
         s1 == CASE k = "track" -> TrackOp(Now, f.r) [] k = "confirm" -> FlushOp(ConfirmOp(Now, f.r), TRUE)
                 [] k = "cancel" -> (IF stk = <<>> THEN FlushOp(CancelOp(Now, f.r), FALSE) ELSE CancelOp(Now, f.r)) [] OTHER -> Now
         again == rv = "T" /\ f.ph = 1                             \* equals(class_decl) goes on after equals(class_or_union):
         s2 == IF again THEN Pass2Op(s1, f) ELSE s1                 \* no bases / virtual functions in C: it returns true at once
     IN /\ k = kind
        /\ canon' = s2.c /\ propagated' = s2.p /\ deps' = s2.d /\ nonConf' = s2.n /\ aborted' = s2.a
        /\ IF again THEN /\ stack' = Append(stk, [f EXCEPT !.ph = 2]) /\ mode' = "ret" /\ rv' = "T"
                         /\ UNCHANGED <<res, cands>>
           ELSE Deliver(rv = "T", stk)
  /\ UNCHANGED <<gv, canonMap, done, cur>>
Track == Settle("track")
Confirm == Settle("confirm")
Cancel == Settle("cancel")
Return == Settle("none")

EndCanon(t) ==
  /\ phase = "run" /\ cur = t /\ mode = "end"
  /\ canon' = [canon EXCEPT ![t] = res]
  /\ canonMap' = IF res = t THEN [canonMap EXCEPT ![KeyOf(g, t)] = Append(@, t)] ELSE canonMap
  /\ done' = done \cup {t}
  /\ cur' = 0 /\ mode' = "idle" /\ res' = 0 /\ cands' = <<>> /\ UNCHANGED <<stack, rv>>
  /\ propagated' = IF Pass2Cancel = "fresh" THEN propagated \ {t} ELSE propagated         \* repaired: the flag ends here
  /\ UNCHANGED <<gv, deps, nonConf, aborted>>

Next == AddNode \/ (\E t \in Nodes : BeginCanon(t) \/ EndCanon(t)) \/ CompareStep
        \/ Propagate \/ Track \/ Confirm \/ Cancel \/ Return
Spec == Init /\ [][Next]_vars

(* ---- properties ---------------------------------------------------------------------------------------- *)
Quiescent == phase = "run" /\ cur = 0
SameKey(a, b) == KeyOf(g, a) = KeyOf(g, b)
(* C20: at quiescence every canonicalized type has a canonical type, and for same-named types a, b:            *)
(*      same canonical type <=> structurally equal                                                            *)
Canonicalizable(a) == ~g[a].d                    \* is_non_canonicalized_type: declaration-only classes never get one
CanonIffBisim ==
  Quiescent => LET D == {a \in done : Canonicalizable(a)} IN
               /\ \A a \in D : canon[a] # 0
               /\ \A a, b \in D : SameKey(a, b) => ((canon[a] = canon[b]) <=> (<<a, b>> \in bis))
(* the first half alone: no type loses (or never gets) its canonical type -- what the sticky flag and the stale entries break, *)
(* separately from the unsound cycle test                                                                                   *)
DoneHaveCanon == Quiescent => \A a \in done : Canonicalizable(a) => canon[a] # 0
(* soundness also for the canonical types sub-types received on the fly, before their own canonicalization *)
PropagatedSound == Quiescent => \A a, b \in Nodes : (canon[a] # 0 /\ canon[a] = canon[b]) => <<a, b>> \in bis
(* canonical types are representatives: canon[t] is itself canonical, of t's name, and listed in canonMap *)
CanonShape == Quiescent => \A a \in Nodes : canon[a] # 0 =>
                 /\ canon[canon[a]] = canon[a] /\ SameKey(a, canon[a])
                 /\ canon[a] \in Range(canonMap[KeyOf(g, a)])
(* the assertions of confirm_ct_propagation / cancel_ct_propagation and the operand stack discipline *)
NoAbort == ~aborted
(* no tentative state survives a canonicalization (not demanded by C20; stale entries are reported by a separate cfg) *)
NoStale == Quiescent => nonConf = {}

(* generator (CONSTRAINT of CanonGen.cfg): print every complete graph once, explore nothing of its canonicalization *)
GenOnly == IF phase = "run" THEN PrintT(ToJson(g)) /\ FALSE ELSE TRUE

TypeOK == /\ phase \in {"build", "run"} /\ cur \in Nodes \cup {0} /\ done \subseteq Nodes
          /\ mode \in {"idle", "pick", "cmp", "ret", "end"} /\ rv \in {"", "T", "F"}
          /\ propagated \subseteq Nodes /\ nonConf \subseteq Nodes
====================================================================================================
