\* The transcription of the pinned tree against the unrestricted properties: TLC finds the counterexamples
\* (D1-D3 of Ini.tla).  Expected to be violated as long as /repo is not repaired.
CONSTANTS Alphabet <- Alpha12
          MaxLen = 3
          Prefix <- PrefixValue
          Fixes = {}
          ValAlphabet <- ValAlpha
          StrLen = 1
SPECIFICATION Spec
INVARIANTS ParseTotal ReadWriteRead
CHECK_DEADLOCK FALSE
