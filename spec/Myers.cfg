CONSTANTS Alphabet = {0, 1, 2}
          MaxLen = 4
SPECIFICATION Spec
INVARIANTS DefinitionAgrees Satisfiable Symmetric
CHECK_DEADLOCK FALSE
