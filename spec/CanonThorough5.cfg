CONSTANTS
  N = 5
  MaxKids = 1
  MaxEdges = 5
  Kinds = {}
  AllowDecl = FALSE
  GraphClass = "any"
  OrderClass = "any"
  CycleCheck = "pair"
  Pass2Cancel = "fresh"
  Outermost = "flush"
  PropagateDespiteCycle = FALSE
  Pass2ClearsDeps = FALSE
SPECIFICATION Spec
CHECK_DEADLOCK FALSE
INVARIANTS TypeOK CanonIffBisim PropagatedSound CanonShape NoAbort
