\* C33, the corrected reader: every abort site reports an error instead -> LoadTotal holds for every document reachable by <= 2 mutations
CONSTANTS MaxMuts = 2
          BaseDocs = {1, 2}
          FixedSites <- Sites
SPECIFICATION Spec
INVARIANTS TypeOK LoadTotal Progress IllFormedIsError PristineLoads
CHECK_DEADLOCK TRUE
