---------------------------------------- MODULE CorpusTrace ----------------------------------------
(* Trace validation for C17 (and the declaration level of C28).  One event = one binary:            *)
(*                                                                                                  *)
(*  {"e":"Partition", "etype", "sections", "hasSymtab", "hasDynsym", "symtab":[rows], "dynsym":[rows],*)
(*   "mode":"kernel|nokernel", "ret",                                                                *)
(*   "fn":  {"public":[ids], "unref":[ids], "decls":[{id, sym}], "di":[{name, addr}], "hasDi":b},      *)
(*   "var": {...same...}}                                                                             *)
(*                                                                                                  *)
(* rows / sections: the independent ELF reader (readelf).  public / unref / decls: libabigail's      *)
(* corpus through the public API (harness/corpus_proj.cc: get_sorted_*_symbols,                       *)
(* get_unreferenced_*_symbols, get_functions / get_variables with their symbols).  di: the functions   *)
(* and variables that debug info defines, with their addresses (readelf --debug-dump=info); hasDi     *)
(* says whether that reading is available (it is not for relocatable files).                         *)
(*                                                                                                  *)
(* Verdict, per kind:                                                                                *)
(*   public      = the ids Symtab!Expected derives from the ELF rows (the "public defined symbols")  *)
(*   every decl's symbol is in public                                                                *)
(*   Attached    = closure of the decl symbols under "same address" (Symtab!Expected's classes)      *)
(*   Attached and unref partition public                                                             *)
(*   every public symbol that debug info defines (same name, same address) is in Attached            *)
EXTENDS Naturals, Sequences, FiniteSets, TLC, Json, IOUtils

T == ndJsonDeserialize(IOEnv.TRACE)
VARIABLES l, verdict, srows, sctx, sdev, splan
S == INSTANCE Symtab WITH Plans <- {}, rows <- srows, ctx <- sctx, dev <- sdev, plan <- splan

(* ------------------------------------------------------------------------------------------------ *)
(* KNOWN-FINDING PREDICATES (to be moved to KnownFindings.tla; FALSE = not listed, i.e. a violation). *)
KF_C17_walk_stops_at_main(ev) == FALSE   \* an alias of an attached symbol is also reported unreferenced (walk stops at the main symbol)
KF_C17_public_set(ev)         == FALSE   \* the corpus' public symbols differ from the ELF table (a C18 deviation seen through C17)
KF_C17_lookup_precedes_main_hint(ev) == FALSE \* a DIE is dropped because an earlier, unexported symbol at its address is the main symbol
KF_C28_nokernel_corpus(ev)    == FALSE   \* --no-linux-kernel-mode: the corpus' symbols are still only the ksymtab-marked ones
(* ------------------------------------------------------------------------------------------------ *)

ToSet(s) == {s[i] : i \in 1..Len(s)}
RECURSIVE Join(_)
Join(X) == IF X = {} THEN "" ELSE LET x == CHOOSE y \in X : TRUE IN x \o (IF X = {x} THEN "" ELSE ",") \o Join(X \ {x})
Kf(b, id, reason) == IF b THEN "kf:" \o id ELSE "bad:" \o reason

Tbl(ev) == S!RelevantTable(ev.etype, ev.hasSymtab, ev.hasDynsym)
R(ev)   == IF Tbl(ev) = "symtab" THEN ev.symtab ELSE ev.dynsym
C(ev)   == S!Ctx(ev.etype, S!IsKernelSections(ev.sections), ev.mode = "kernel")

KindVerdict(ev, k, sect, rws, c) ==
  LET E        == S!Expected(rws, c)
      X        == S!ExpectedIdx(rws, c)
      elfPub   == {S!Id(rws[i]) : i \in {j \in X : S!SymRec(rws[j]).sect = sect}}
      pub      == ToSet(k.public)
      unref    == ToSet(k.unref)
      dsyms    == {k.decls[i].sym : i \in 1..Len(k.decls)}
      attached == {s \in pub : s \in dsyms \/ \E cl \in E.classes : s \in cl /\ cl \cap dsyms # {}}
      diIdx    == {j \in X : S!SymRec(rws[j]).sect = sect /\
                                \E q \in 1..Len(k.di) : k.di[q].name = rws[j].name /\ k.di[q].addr = rws[j].value}
      missIdx  == {j \in diIdx : S!Id(rws[j]) \notin attached}
      \* an earlier row at the same address that is in the address map but not public / exported: the main symbol of the chain
      Shadowed(j) == \E i \in 1..(j - 1) : S!InMap(rws[i]) /\ i \notin X /\ S!AddrBase(rws[i], c) = S!AddrBase(rws[j], c)
      XK       == S!ExpectedIdx(rws, S!CodeCtx(c))
      elfPubK  == {S!Id(rws[i]) : i \in {j \in XK : S!SymRec(rws[j]).sect = sect}}
  IN IF pub # elfPub /\ c.kernel /\ ~c.kmode /\ pub = elfPubK
     THEN Kf(KF_C28_nokernel_corpus(ev), "C28-nokernel", sect \o "-no-kernel-mode-ignored:missing=" \o Join(elfPub \ pub))
     ELSE IF pub # elfPub
     THEN Kf(KF_C17_public_set(ev), "C17-public-set", sect \o "-public-set-differs-from-elf:missing=" \o Join(elfPub \ pub) \o ";unexpected=" \o Join(pub \ elfPub))
     ELSE IF ~(dsyms \subseteq pub) THEN "bad:" \o sect \o "-decl-symbol-not-public:" \o Join(dsyms \ pub)
     ELSE IF attached \cap unref # {}
     THEN (IF (attached \cap unref) \cap dsyms = {}
           THEN Kf(KF_C17_walk_stops_at_main(ev), "C17-walk-stops-at-main", sect \o "-alias-of-attached-symbol-reported-unreferenced:" \o Join(attached \cap unref))
           ELSE "bad:" \o sect \o "-both-attached-and-unreferenced:" \o Join(attached \cap unref))
     ELSE IF attached \cup unref # pub THEN "bad:" \o sect \o "-neither-attached-nor-unreferenced:" \o Join(pub \ (attached \cup unref))
     ELSE IF ~(unref \subseteq pub) THEN "bad:" \o sect \o "-unreferenced-symbol-not-public:" \o Join(unref \ pub)
     ELSE IF k.hasDi /\ missIdx # {}
     THEN (IF \A j \in missIdx : Shadowed(j)
           THEN Kf(KF_C17_lookup_precedes_main_hint(ev), "C17-lookup-precedes-main-hint",
                   sect \o "-symbol-with-debug-info-not-in-interface-behind-unexported-main-symbol:" \o Join({S!Id(rws[j]) : j \in missIdx}))
           ELSE "bad:" \o sect \o "-symbol-with-debug-info-not-in-interface:" \o Join({S!Id(rws[j]) : j \in missIdx}))
     ELSE "ok"

Verdict(ev) ==
  IF Tbl(ev) = "none" THEN "bad:no-symbol-table"
  ELSE IF ev.ret = "nocorpus" /\ S!ExpectedIdx(R(ev), C(ev)) = {} /\ ev.fn.di = <<>> /\ ev.var.di = <<>>
  THEN "ok"        \* no public symbol and no debug info: read_corpus_from_elf returns no corpus; nothing was to be accounted for
  ELSE IF ev.ret = "nocorpus" /\ C(ev).kernel /\ ~C(ev).kmode /\ S!ExpectedIdx(R(ev), S!CodeCtx(C(ev))) = {}
  THEN Kf(KF_C28_nokernel_corpus(ev), "C28-nokernel", "no-kernel-mode-ignored:no-corpus")
  ELSE IF ev.ret # "ok" THEN "bad:run-" \o ev.ret
  ELSE LET rws == R(ev)
           c   == C(ev)
           vf  == KindVerdict(ev, ev.fn, "fn", rws, c)
       IN IF vf # "ok" THEN vf ELSE KindVerdict(ev, ev.var, "var", rws, c)

TInit == l = 1 /\ verdict = "ok" /\ srows = <<>> /\ sctx = S!Ctx("DYN", FALSE, TRUE) /\ sdev = {} /\ splan = S!P("trace", {}, 0)
TNext == /\ l <= Len(T) /\ l' = l + 1
         /\ T[l].e = "Partition"
         /\ srows' = <<>> /\ sctx' = C(T[l])
         /\ verdict' = Verdict(T[l])
         /\ UNCHANGED <<sdev, splan>>
TSpec == TInit /\ [][TNext]_<<l, verdict, srows, sctx, sdev, splan>>

Report == verdict = "ok" \/ PrintT(ToJson([i |-> l - 1, v |-> verdict]))
Accepted == TLCGet("stats").diameter - 1 = Len(T)
====================================================================================================
