---------------------------------------- MODULE HashIdTrace ---------------------------------------
(* Trace validation of hash-style type ids (C40).  One event per pair of documents written by        *)
(* `abidw --type-id-style hash`:                                                                     *)
(*   {"e":"HashIds","case":n,"hashes":[{"n":key,"h":int}..],"doc1":[{"n":key,"id":int}..],           *)
(*    "doc2":[{"n":key,"id":int}..],"ret":"ok"}                                                       *)
(* doc1 / doc2 list EVERY type element of the document with its id; a key is the internal name the     *)
(* check reconstructs from the element (named kinds: type-decl, class-decl, union-decl, enum-decl,      *)
(* typedef-decl; pointers, qualified types and arrays of those when the reconstruction is confirmed by   *)
(* the id itself in one of the documents) or, for the other elements, a per-document placeholder.       *)
(* hashes gives, for the reconstructed names, the 32-bit FNV-1a hash of the name computed by the check   *)
(* (not by libabigail).  Hashes and ids are renumbered together by an order- and adjacency-preserving    *)
(* map into small integers (TLC integers are 32-bit), so "slot h+1" keeps its meaning.                   *)
(* The step loads the observation into the variables of HashId.tla and the verdict is HashId!StableFor    *)
(* on every name common to the two documents, i.e. the model's own property on the observed documents.   *)
(* Conformance prints the names whose id is not "hash + probes over occupied slots" (never rejects).      *)
EXTENDS HashId, IOUtils

(* ---- known findings of C40: FALSE placeholder, to be moved to KnownFindings.tla ------------------- *)
KF_C40(ev) == FALSE
(* --------------------------------------------------------------------------------------------------- *)

T == ndJsonDeserialize(IOEnv.TRACE)
VARIABLES l, verdict

Keys(seq) == {seq[i].n : i \in 1..Len(seq)}
HashOf(ev) == [k \in Keys(ev.hashes) |-> ev.hashes[CHOOSE i \in 1..Len(ev.hashes) : ev.hashes[i].n = k].h]
IdsOf(seq) == [k \in Keys(seq) |-> seq[CHOOSE i \in 1..Len(seq) : seq[i].n = k].id]
Common(h, a, b) == DOMAIN h \cap DOMAIN a \cap DOMAIN b

Verdict(ev) ==
  LET h == HashOf(ev) a == IdsOf(ev.doc1) b == IdsOf(ev.doc2)
      v == IF ev.ret # "ok" THEN "bad:abidw-failed"
           ELSE IF Cardinality(Keys(ev.doc1)) # Len(ev.doc1) \/ Cardinality(Keys(ev.doc2)) # Len(ev.doc2) THEN "bad:malformed-event"
           ELSE IF ~IdsUnique(a) \/ ~IdsUnique(b) THEN "bad:duplicate-type-id"
           ELSE IF \E n \in Common(h, a, b) : ~StableFor(h, a, b, n) THEN "bad:ids-differ-without-collision"
           ELSE "ok"
  IN IF v # "ok" /\ KF_C40(ev) THEN "kf:C40" ELSE v

Unexplained(ev) ==
  LET h == HashOf(ev) a == IdsOf(ev.doc1) b == IdsOf(ev.doc2)
  IN {n \in DOMAIN h \cap DOMAIN a : ~(a[n] >= h[n] /\ PathOccupied(h, a, n))} \cup {n \in DOMAIN h \cap DOMAIN b : ~(b[n] >= h[n] /\ PathOccupied(h, b, n))}

TInit == l = 1 /\ verdict = "ok" /\ H = <<>> /\ ids1 = <<>> /\ ids2 = <<>>
TNext == /\ l <= Len(T) /\ l' = l + 1
         /\ T[l].e = "HashIds"
         /\ H' = HashOf(T[l]) /\ ids1' = IdsOf(T[l].doc1) /\ ids2' = IdsOf(T[l].doc2)
         /\ verdict' = Verdict(T[l])
TSpec == TInit /\ [][TNext]_<<vars, l, verdict>>

Report == verdict = "ok" \/ PrintT(ToJson([i |-> l - 1, v |-> verdict]))
Conformance == l = 1 \/ T[l-1].ret # "ok" \/ Unexplained(T[l-1]) = {}
               \/ PrintT(ToJson([at |-> l - 1, unexplained |-> Unexplained(T[l-1])]))
Accepted == TLCGet("stats").diameter - 1 = Len(T)
====================================================================================================
