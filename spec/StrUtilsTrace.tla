-------------------------------------- MODULE StrUtilsTrace --------------------------------------
(* Trace validation of the string / name helpers of abigail::tools_utils (C41).  Every event is one *)
(* call recorded by harness/strutils.cc:                                                            *)
(*   {"e":"Call","fn":F,"x":[tokens],"y":[tokens],"ret":"ok"|"timeout"|"sig<N>",                   *)
(*    "res":bool,"rev":bool,"set":bool,"out":[[tokens],...]}                                        *)
(* x, y are the arguments (str / prefix, suffix, pattern, delimiters; y = [] for unary helpers),    *)
(* res the boolean result, rev the result with swapped arguments (decl_names_equal), set = the      *)
(* out-parameter was assigned (string_suffix), out the result strings projected back to tokens.     *)
(* The step is enabled for any call; the verdict compares the recorded result with the *declarative *)
(* definitions* of StrUtils.tla (StrUtils!Judge) -- that is what the property states.               *)
(* Independently, Conformance prints, for every call on which the pinned and the corrected          *)
(* transcription differ or which neither reproduces, which transcription the implementation         *)
(* followed (evidence about the faithfulness of the transcriptions; it never rejects a trace).      *)
EXTENDS StrUtils, IOUtils, KnownFindings

T == ndJsonDeserialize(IOEnv.TRACE)
VARIABLES l, verdict

Rec(ev) == [ret |-> ev.ret, res |-> ev.res, rev |-> ev.rev, set |-> ev.set, out |-> ev.out]
Verdict(ev) == IF ev.fn \notin AllFns THEN "bad:unknown-function" ELSE Judge(ev.fn, ev.x, ev.y, Rec(ev))

(* a transcription result as the harness would have recorded it *)
AsRecorded(r) == [r EXCEPT !.ret = IF r.ret = "hang" THEN "timeout" ELSE r.ret]
Follows(ev) ==
  LET p == AsRecorded(Impl(ev.fn, ev.x, ev.y, AllOddities))
      c == AsRecorded(Impl(ev.fn, ev.x, ev.y, {}))
      r == Rec(ev)
  IN IF p = c THEN (IF r = p THEN "both" ELSE "neither")
     ELSE IF r = p THEN "pinned" ELSE IF r = c THEN "corrected" ELSE "neither"

TInit == l = 1 /\ verdict = "ok" /\ x = <<>> /\ y = <<>>
TCall == /\ T[l].e = "Call"
         /\ x' = T[l].x /\ y' = T[l].y
         /\ verdict' = Verdict(T[l])
TNext == l <= Len(T) /\ l' = l + 1 /\ TCall
TSpec == TInit /\ [][TNext]_<<vars, l, verdict>>

Report == verdict = "ok" \/ PrintT(ToJson([i |-> l - 1, v |-> verdict]))
Conformance == l = 1 \/ T[l-1].fn \notin AllFns \/ Follows(T[l-1]) = "both"
               \/ PrintT(ToJson([at |-> l - 1, follows |-> Follows(T[l-1])]))
Accepted == TLCGet("stats").diameter - 1 = Len(T)
====================================================================================================
