CONSTANTS
  FaithfulRegex = FALSE
  FaithfulHeaders = FALSE
  Mode = "names"
  Tier = "thorough"
  MaxMem = 4
SPECIFICATION Spec
CHECK_DEADLOCK FALSE
INVARIANTS Safety InvalidMatchesNothing
