SPECIFICATION Spec
INVARIANTS StepsAgreeWithFunction StatusLattice ChangeBitIffNet LoadFailIsError
CHECK_DEADLOCK FALSE
