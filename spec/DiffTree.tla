----------------------------------------- MODULE DiffTree -----------------------------------------
(* The diff forest of a corpus_diff and the passes that turn it into a verdict (C08, C10, C13, C22,   *)
(* C23): suppression categorization (visit_begin / visit_end of suppression_categorization_visitor),  *)
(* category propagation (category_propagation_visitor), redundancy propagation, filtering              *)
(* (diff::priv::is_filtered_out), leaf marking (leaf_diff_node_marker_visitor), statistics             *)
(* (apply_filters_and_compute_diff_stats), net / incompatible verdicts of both reporters and the exit  *)
(* status bits.  *Local facts* of a node are inputs (what categorize_harmless/harmful_diff_node, the   *)
(* suppression matcher and the node kind say about the node itself); everything else is derived here   *)
(* and, in trace validation, compared with what the implementation derived (hook H3).                  *)
(*                                                                                                     *)
(* Nodes are 1..N; parent[n] < n, 0 = the node is an interface diff (changed function / variable).     *)
(* Category bits are abstracted to three classes: "HARMLESS" (any bit the default mode does not allow: *)
(* harmless enum / union / name / cv ... changes), "HARMFUL" (size-or-offset, parameter add/remove,    *)
(* ...: allowed by default) and "VIRTUAL" (virtual member change: allowed, and makes a change          *)
(* incompatible).                                                                                      *)
EXTENDS Naturals, Integers, Sequences, FiniteSets, TLC

CONSTANTS N,             \* number of diff nodes
          MaxRemoved,    \* bound on removed / added interface counters
          WithSup,       \* explore suppression inputs (selfSup, inheritOk); otherwise nothing is suppressed
          WithRed        \* explore redundancy inputs (redIn, --redundant)

Bits == {"HARMLESS", "HARMFUL", "VIRTUAL"}
Nodes == 1..N

VARIABLES parent,        \* [Nodes -> 0..N-1]
          hasLocal,      \* has_local_changes(): the node itself differs
          lcat,          \* local categories of the node (subset of Bits)
          leafKind,      \* the node's kind is one the leaf marker accepts (not pointer / reference / qualified / typedef / array / parameter / distinct ...)
          selfSup,       \* a suppression specification matches the node itself
          inheritOk,     \* the node may inherit SUPPRESSED from its children (no local change, or a kind / change-kind the visitor lists)
          redIn,         \* the redundancy pass marked the node itself REDUNDANT (it repeats an already reported change)
          removed, removedSup, added, addedSup,     \* removed / added interfaces and how many of them are suppressed
          showRed, allowHarmless                     \* --redundant, --harmless
vars == <<parent, hasLocal, lcat, leafKind, selfSup, inheritOk, redIn, removed, removedSup, added, addedSup, showRed, allowHarmless>>

Children(n) == {c \in Nodes : parent[c] = n}
Roots == {n \in Nodes : parent[n] = 0}

(* ---- derived facts, bottom-up (children have larger numbers) ------------------------------------- *)
RECURSIVE HasChanges(_), Cat(_), Sup(_), Red(_)
HasChanges(n) == hasLocal[n] \/ \E c \in Children(n) : HasChanges(c)
(* category propagation: everything but REDUNDANT / SUPPRESSED / PRIVATE flows from children to parents *)
Cat(n) == lcat[n] \cup UNION {Cat(c) : c \in Children(n)}
(* suppression: matched itself, or allowed to inherit and every changed child is suppressed *)
Sup(n) == \/ selfSup[n]
          \/ /\ inheritOk[n]
             /\ \E c \in Children(n) : HasChanges(c)
             /\ \A c \in Children(n) : HasChanges(c) => Sup(c)
(* redundancy: marked itself, or no local change and every changed child is redundant *)
Red(n) == \/ redIn[n]
          \/ /\ ~hasLocal[n]
             /\ \E c \in Children(n) : HasChanges(c)
             /\ \A c \in Children(n) : HasChanges(c) => Red(c)

Allowed == {"HARMFUL", "VIRTUAL"} \cup (IF allowHarmless THEN {"HARMLESS"} ELSE {})
(* diff::priv::is_filtered_out on the inherited category *)
(* (when every category is allowed -- --harmless on top of the default harmful ones -- priv::is_filtered_out returns false   *)
(* before looking at REDUNDANT: nothing but suppressed classes is filtered)                                                 *)
Filtered(n) == \/ Sup(n)
               \/ (~allowHarmless /\ Red(n) /\ ~showRed)
               \/ (~allowHarmless /\ Cat(n) # {} /\ Cat(n) \cap Allowed = {})
ToBeReported(n) == HasChanges(n) /\ ~Filtered(n)

(* leaf marking: a node with a local change of an acceptable kind below an interface; interface diffs themselves count as leaf function / variable changes *)
LeafTypes == {n \in Nodes \ Roots : hasLocal[n] /\ leafKind[n]}

(* ---- statistics (apply_filters_and_compute_diff_stats) ------------------------------------------- *)
Changed == {r \in Roots : HasChanges(r)}
ChangedFiltered == {r \in Changed : Filtered(r)}
NetChanged == Cardinality(Changed) - Cardinality(ChangedFiltered)
VirtOff == {r \in Changed : ~Filtered(r) /\ "VIRTUAL" \in Cat(r)}
LeafIface == {r \in Changed : hasLocal[r]}
LeafIfaceFiltered == {r \in ChangedFiltered : hasLocal[r]}
NetLeafIface == Cardinality(LeafIface) - Cardinality(LeafIfaceFiltered)
LeafTypesFiltered == {n \in LeafTypes : ~ToBeReported(n)}
NetLeafTypes == Cardinality(LeafTypes) - Cardinality(LeafTypesFiltered)
NetRemoved == removed - removedSup
NetAdded == added - addedSup

HasNetDefault == NetRemoved > 0 \/ NetChanged > 0 \/ NetAdded > 0
HasNetLeaf == NetRemoved > 0 \/ NetLeafTypes > 0 \/ NetLeafIface > 0 \/ NetAdded > 0
Incompatible == NetRemoved > 0 \/ (VirtOff # {} /\ NetChanged > 0)
ExitBits(leaf) == (IF (IF leaf THEN HasNetLeaf ELSE HasNetDefault) THEN 4 ELSE 0) + (IF Incompatible THEN 8 ELSE 0)

(* ---- the explored space ---------------------------------------------------------------------------- *)
TypeOK ==
  /\ parent \in [Nodes -> 0..(N - 1)] /\ \A n \in Nodes : parent[n] < n
  /\ hasLocal \in [Nodes -> BOOLEAN] /\ lcat \in [Nodes -> SUBSET Bits] /\ leafKind \in [Nodes -> BOOLEAN]
  /\ selfSup \in [Nodes -> BOOLEAN] /\ inheritOk \in [Nodes -> BOOLEAN] /\ redIn \in [Nodes -> BOOLEAN]
(* what the implementation guarantees about the local facts *)
WellFormed ==
  /\ \A n \in Nodes : lcat[n] # {} => hasLocal[n]                    \* a category is attached to a change of the node itself
  /\ \A n \in Nodes : HasChanges(n)                                   \* the forest only holds nodes that carry a change
  /\ \A n \in Nodes \ Roots : (hasLocal[n] /\ ~leafKind[n]) => hasLocal[parent[n]]    \* a local change of a non-leaf kind (pointer, typedef, parameter ...) is also local to its user
  /\ \A r \in Roots : ~redIn[r]                                       \* interface diffs are never marked redundant by themselves
  /\ removedSup <= removed /\ addedSup <= added
LocalCats == {{}, {"HARMLESS"}, {"HARMFUL"}, {"VIRTUAL"}, {"HARMLESS", "HARMFUL"}}
Init ==
  /\ parent \in [Nodes -> 0..(N - 1)] /\ \A n \in Nodes : parent[n] < n
  /\ hasLocal \in [Nodes -> BOOLEAN] /\ lcat \in [Nodes -> LocalCats] /\ leafKind \in [Nodes -> BOOLEAN]
  /\ selfSup \in (IF WithSup THEN [Nodes -> BOOLEAN] ELSE {[n \in Nodes |-> FALSE]})
  /\ inheritOk \in (IF WithSup THEN [Nodes -> BOOLEAN] ELSE {[n \in Nodes |-> TRUE]})
  /\ redIn \in (IF WithRed THEN [Nodes -> BOOLEAN] ELSE {[n \in Nodes |-> FALSE]})
  /\ removed \in 0..MaxRemoved /\ removedSup \in (IF WithSup THEN 0..MaxRemoved ELSE {0})
  /\ added \in 0..MaxRemoved /\ addedSup \in (IF WithSup THEN 0..MaxRemoved ELSE {0})
  /\ showRed \in (IF WithRed THEN BOOLEAN ELSE {FALSE}) /\ allowHarmless \in BOOLEAN
  /\ WellFormed
Next == UNCHANGED vars
Spec == Init /\ [][Next]_vars

(* ---- properties ------------------------------------------------------------------------------------- *)
(* C08: the incompatible bit never appears without the change bit *)
LatticeDefault == Incompatible => HasNetDefault
LatticeLeaf == Incompatible => HasNetLeaf
(* C10: filtered-out counts never exceed the totals; net counts are non-negative *)
Arithmetic == /\ ChangedFiltered \subseteq Changed /\ LeafIfaceFiltered \subseteq LeafIface /\ LeafTypesFiltered \subseteq LeafTypes
              /\ NetChanged >= 0 /\ NetLeafIface >= 0 /\ NetLeafTypes >= 0 /\ NetRemoved >= 0 /\ NetAdded >= 0
(* C22: when no suppression matches anything, the suppression pass changes nothing *)
NothingMatched == (\A n \in Nodes : ~selfSup[n]) /\ removedSup = 0 /\ addedSup = 0
FrameUnmatched == NothingMatched => \A n \in Nodes : ~Sup(n)
(* C23: a suppression that matches exactly one interface diff filters exactly it *)
HidesExactly == \A r \in Roots : ((\A n \in Nodes : selfSup[n] <=> n = r) /\ HasChanges(r))
                   => (Filtered(r) /\ \A n \in Nodes : (Sup(n) => (n = r)))
(* C07 at tree level: only harmless categories anywhere => nothing reported by default, everything with --harmless *)
HarmlessOnly == \A n \in Nodes : lcat[n] \subseteq {"HARMLESS"} /\ (hasLocal[n] => lcat[n] # {})
HarmlessFiltered == (HarmlessOnly /\ NothingMatched /\ removed = 0 /\ added = 0 /\ ~(\E n \in Nodes : redIn[n]))
                      => (IF allowHarmless THEN NetChanged = Cardinality(Changed) ELSE NetChanged = 0)
(* C05 at tree level: a harmful local change below an interface whose ancestors carry no suppression / redundancy is reported *)
HarmfulNotFiltered == \A r \in Roots : ("HARMFUL" \in Cat(r) /\ ~Sup(r) /\ ~Red(r)) => ~Filtered(r)

(* C13: leaf mode gives the default verdict.  NOT an invariant of the faithful model: the configuration       *)
(* DiffTreeLeaf.cfg lets TLC print the shapes on which the two modes disagree; the two families it finds are   *)
(* the uncategorized change below a harmless ancestor (known finding C13/C05 same-size-change-in-union)       *)
(* and a redundant-only interface whose leaf node is reported elsewhere.                                      *)
LeafAgrees == ExitBits(TRUE) = ExitBits(FALSE)
(* the disagreement is confined to these situations: *)
UncategorizedBelowHarmless == \E n \in Nodes : hasLocal[n] /\ lcat[n] = {} /\ \E r \in Roots : "HARMLESS" \in Cat(r) /\ Cat(r) \cap Allowed = {}
LeafAgreesOrExplained == LeafAgrees \/ UncategorizedBelowHarmless \/ (\E n \in Nodes : Red(n) /\ ~showRed) \/ (\E n \in Nodes : Sup(n))
====================================================================================================
