CONSTANT MaxLen = 3
SPECIFICATION Spec
CONSTRAINT EmitString
CHECK_DEADLOCK FALSE
