------------------------------------------- MODULE EqModel -------------------------------------------
(* C21, model side.  The expectation the C21 campaign attaches to every function / variable pair ("same" / "changed") is    *)
(* Abi!ChangedFns / ChangedVars, i.e. Abi's structural equality (Bisim) between the two programs of a pair.  The three      *)
(* relations C21 demands of the implementation are demanded here of that oracle, over every program pair Abi.tla builds       *)
(* within the bounds of the configuration: equality is symmetric (comparing P' with P gives the transposed relation, so the   *)
(* same interfaces are "changed" in both directions), reflexive, and an abstract structural hash -- the local shape of a      *)
(* type, which is what survives of "hash = canonical type" when canonical types are the classes of Bisim -- is equal for       *)
(* equal types; the abstract diff "reports a change iff unequal" is ChangedFns itself.                                        *)
EXTENDS Abi

Transpose(R) == {<<p[2], p[1]>> : p \in R}
InvEqSymmetric == phase \in {"mutate", "done"} => Bisim(types2, types) = Transpose(Bisim(types, types2))
InvEqReflexive == phase \in {"mutate", "done"} => /\ \A i \in TRef(types) : <<i, i>> \in Bisim(types, types)
                                                  /\ \A i \in TRef(types2) : <<i, i>> \in Bisim(types2, types2)
ChangedFnsRev == LET B == Bisim(types2, types) IN
  {fns2[i].id : i \in {i \in 1..Len(fns2) : \E j \in ById(fns, fns2[i].id) : ~FnEq(B, fns2[i], fns[j])}}
ChangedVarsRev == LET B == Bisim(types2, types) IN
  {vars2[i].id : i \in {i \in 1..Len(vars2) : \E j \in ById(vars, vars2[i].id) : ~VarEq(B, vars2[i], vars[j])}}
InvChangedSymmetric == phase = "done" => ChangedFns = ChangedFnsRev /\ ChangedVars = ChangedVarsRev
(* equal types have equal local shapes: any hash computed from the shape respects equality *)
ShapeHash(t) == <<t.k, IF t.k \in {"struct", "union"} THEN Len(t.m) ELSE 0>>
InvEqImpliesHashEq == phase \in {"mutate", "done"} =>
                        \A p \in Bisim(types, types2) : ShapeHash(types[p[1]]) = ShapeHash(types2[p[2]])
========================================================================================================
