"""Projects an ABIXML document (as parsed by lib/abixml.project) onto the record shape of spec/Abi.tla, so that TLC can
compare the *recorded* ABI with the model program structurally (Abi!Bisim).  Only a projection: unsupported constructs make
the projection fail (the case is then discarded by the caller), nothing is judged here."""
import re

BASE_NAMES = {"char": 1, "short int": 2, "short": 2, "int": 3, "long int": 4, "long": 4, "unsigned char": 5, "unsigned short int": 6,
              "short unsigned int": 6, "unsigned short": 6, "unsigned int": 7, "unsigned long int": 8, "long unsigned int": 8,
              "unsigned long": 8, "float": 9, "double": 10}


class Unsupported(Exception):
    pass


def _num(name, prefix):
    m = re.match(r"^%s(\d+)$" % prefix, name or "")
    if not m:
        raise Unsupported("name %r does not look like %s<n>" % (name, prefix))
    return int(m.group(1))


def project(pr, prefix=""):
    """pr: result of abixml.project.  Returns dict(types=[Abi records], fns=[...], vars=[...], layouts=[...]).
    prefix: symbol-name prefix to strip from function/variable names (multi-program renderings)."""
    T = pr["types"]
    idx = {}            # xml id -> index (0 = void)
    nodes = []

    def mk(k, id_=0, t=0, d=0, m=None, e=None):
        return {"k": k, "id": id_, "t": t, "d": d, "m": m or [], "e": e or [], "b": [], "vf": [], "mf": []}

    def ref(xid):
        if xid is None:
            return 0
        if xid in idx:
            return idx[xid]
        if xid not in T:
            raise Unsupported("dangling type id " + str(xid))
        rec = T[xid]
        kind, a = rec["kind"], rec["attrs"]
        if kind == "type-decl":
            if a.get("name") == "void":
                idx[xid] = 0
                return 0
            if a.get("name") not in BASE_NAMES:
                raise Unsupported("base type %r" % a.get("name"))
            nodes.append(mk("base", BASE_NAMES[a["name"]]))
            idx[xid] = len(nodes)
            return idx[xid]
        # reserve the slot first (recursive types)
        nodes.append(None)
        me = len(nodes)
        idx[xid] = me
        if kind in ("class-decl", "union-decl"):
            if a.get("is-declaration-only") == "yes":
                raise Unsupported("declaration-only aggregate " + a.get("name", ""))
            isu = kind == "union-decl"
            n = _num(a.get("name"), "U" if isu else "S")
            if rec["bases"]:
                raise Unsupported("base classes")
            ms = [{"n": _num(m.get("name"), "m"), "t": ref(m.get("type-id")), "bw": 0, "acc": "public"} for m in rec["members"] if m.get("static") != "yes"]
            nodes[me - 1] = mk("union" if isu else "struct", n, m=ms)
        elif kind == "enum-decl":
            n = _num(a.get("name"), "E")
            es = []
            for (nm, val) in rec["enumerators"]:
                mm = re.match(r"^E%d_k(\d+)$" % n, nm or "")
                if not mm:
                    raise Unsupported("enumerator " + str(nm))
                es.append({"n": int(mm.group(1)), "v": int(val)})
            nodes[me - 1] = mk("enum", n, e=es)
        elif kind == "typedef-decl":
            nodes[me - 1] = mk("typedef", _num(a.get("name"), "T"), t=ref(a.get("type-id")))
        elif kind == "pointer-type-def":
            tgt = a.get("type-id")
            if tgt in T and T[tgt]["kind"] == "function-type":
                ft = T[tgt]
                ps = [p for p in ft["params"] if p.get("is-variadic") != "yes"]
                if len(ps) != len(ft["params"]):
                    raise Unsupported("variadic function pointer")
                nodes[me - 1] = mk("fnptr", t=ref(ft["ret"]), m=[{"n": 0, "t": ref(p.get("type-id")), "bw": 0, "acc": ""} for p in ps])
            else:
                nodes[me - 1] = mk("ptr", t=ref(tgt))
        elif kind == "qualified-type-def":
            if a.get("const") != "yes" or a.get("volatile") == "yes" or a.get("restrict") == "yes":
                raise Unsupported("qualifier other than const")
            nodes[me - 1] = mk("const", t=ref(a.get("type-id")))
        elif kind == "array-type-def":
            dims = [int(s.get("length", "0")) if s.get("length", "").isdigit() else -1 for s in rec["subranges"]]
            if not dims or any(d < 0 for d in dims):
                raise Unsupported("array without known dimensions")
            inner = ref(a.get("type-id"))
            # innermost dimension is the last subrange; this node is the outermost
            for d in reversed(dims[1:]):
                nodes.append(mk("array", t=inner, d=d))
                inner = len(nodes)
            nodes[me - 1] = mk("array", t=inner, d=dims[0])
        else:
            raise Unsupported(kind)
        return me

    fns, vars_ = [], []
    for f in pr["fns"]:
        nm = f["attrs"].get("name", "")
        if prefix and nm.startswith(prefix):
            nm = nm[len(prefix):]
        if not re.match(r"^fn\d+$", nm):
            continue            # helper functions of the rendering (verif_use_<k>)
        ps = [p for p in f["params"] if p.get("is-variadic") != "yes"]
        fns.append({"id": int(nm[2:]), "r": ref(f["ret"]), "p": [{"t": ref(p.get("type-id")), "c": False} for p in ps], "va": len(ps) != len(f["params"])})
    for v in pr["vars"]:
        nm = v.get("name", "")
        if prefix and nm.startswith(prefix):
            nm = nm[len(prefix):]
        if not re.match(r"^var\d+$", nm):
            continue
        vars_.append({"id": int(nm[3:]), "t": ref(v.get("type-id"))})
    for i, n in enumerate(nodes):
        if n is None:
            raise Unsupported("unresolved node")
    return {"types": nodes, "fns": sorted(fns, key=lambda f: f["id"]), "vars": sorted(vars_, key=lambda v: v["id"])}


def layouts(pr):
    """observed layouts of aggregates: [{name, sizeBits, members:[{n, bit}]}] (declaration-only ones skipped)"""
    out = []
    for rec in pr["types"].values():
        if rec["kind"] not in ("class-decl", "union-decl"):
            continue
        a = rec["attrs"]
        if a.get("is-declaration-only") == "yes":
            continue
        ms = []
        ok = True
        for m in rec["members"]:
            mm = re.match(r"^m(\d+)$", m.get("name") or "")
            off = m.get("layout-offset-in-bits")
            if off is None and rec["kind"] == "union-decl":
                off = "0"           # the writer omits the offset of union members (all at 0)
            if not mm or off is None:
                ok = False
                break
            ms.append({"n": int(mm.group(1)), "bit": int(off)})
        if ok and a.get("size-in-bits", "").isdigit():
            out.append({"name": a.get("name"), "sizeBits": int(a["size-in-bits"]), "members": ms})
    return out


def strip_model(types):
    """the model's types with the fields the ABIXML does not carry neutralized (bit-field widths, access)"""
    res = []
    for t in types:
        t2 = dict(t)
        t2["m"] = [dict(m, bw=0, acc=("public" if t["k"] in ("struct", "union") else "")) for m in t["m"]]
        for f in ("b", "vf", "mf"):
            t2.setdefault(f, [])
        res.append(t2)
    return res
