"""Shared campaign plumbing of the symbol-table checks (C17, C18, C28): run the observers on one binary and assemble
the event the trace specification judges.  Nothing here judges."""
import json, os, time
import vf, symobs


# Load folds over the table with a recursive function: one Java frame group per row, so big tables need a deeper stack
TLC_ENV = {"JAVA_TOOL_OPTIONS": "-Xss256m"}


def run(cmd, **kw):
    """vf.run, retried when the tool binary is momentarily unavailable (a concurrent bin/build relinking it)."""
    for attempt in range(90):
        try:
            return vf.run(cmd, **kw)
        except (PermissionError, FileNotFoundError, OSError) as ex:
            last = ex
            time.sleep(2)
    vf.infra("cannot execute %s: %s" % (cmd[0], last))


def abidw_cmd(path, mode="kernel"):
    cmd = [vf.tool("hooks", "abidw"), "--no-show-locs", "--no-corpus-path"]
    if mode == "nokernel":
        cmd.append("--no-linux-kernel-mode")
    return cmd + [path]


def ret_of(r):
    if r.timeout:
        return "timeout"
    if r.sig:
        return "signal%d%s" % (r.sig, ("-" + r.abort_assert) if r.abort_assert else "")
    if r.exit != 0:
        return "exit%d" % r.exit
    return "ok"


def elf_facts(path):
    """The independent reader's facts, or raises symobs.Unusable."""
    t = symobs.readelf_tables(path)
    if not t["hasSymtab"] and not t["hasDynsym"]:
        raise symobs.Unusable("no symbol table")
    return t


def symtab_event(path, kind, mode="kernel", e="Symtab", api=True, harness=None, facts=None, scratch=None):
    """One {"e":"Symtab"|"Kernel"} event for a binary: readelf's tables + abidw's symbol records (+ the API view)."""
    t = facts or elf_facts(path)
    ev = {"e": e, "bin": path, "kind": kind, "mode": mode}
    ev.update(t)
    r = run(abidw_cmd(path, mode), env=vf.henv(scratch), timeout=120)
    ev["ret"] = ret_of(r)
    ev.update({"abidw": [], "classes": [], "hasApi": False, "api": [], "apiclasses": []})
    if ev["ret"] == "ok":
        try:
            recs, cls, _ = symobs.abidw_symbols(r.out)
            ev.update({"abidw": recs, "classes": cls})
        except Exception as ex:
            ev["ret"] = "unparsable-abixml"
    else:
        ev["stderr"] = r.err[-300:]
    if api and harness and ev["ret"] == "ok":
        js = run_harness(harness, path, mode, scratch)
        if js.get("ret") == "ok":
            ar, ac = symobs.api_symbols(js)
            ev.update({"hasApi": True, "api": ar, "apiclasses": ac})
        else:
            ev["ret"] = "api-" + js.get("ret", "?")
    return ev


def run_harness(harness, path, mode="kernel", scratch=None):
    cmd = [harness, path] + (["--no-linux-kernel-mode"] if mode == "nokernel" else [])
    r = run(cmd, env=vf.henv(scratch), timeout=120)
    if ret_of(r) != "ok":
        return {"ret": ret_of(r), "stderr": r.err[-300:]}
    try:
        return json.loads(r.out.strip().splitlines()[-1])
    except Exception:
        return {"ret": "unparsable-output"}


def partition_event(path, kind, harness, mode="kernel", facts=None, with_di=True, scratch=None):
    """One {"e":"Partition"} event: readelf's tables, the debug-info definitions, and the corpus seen through the API."""
    t = facts or elf_facts(path)
    ev = {"e": "Partition", "bin": path, "kind": kind, "mode": mode}
    ev.update(t)
    di = {"fn": [], "var": []}
    has_di = False
    if with_di and t["etype"] != "REL":
        try:
            di = symobs.dwarf_defs(path)
            has_di = True
        except symobs.Unusable:
            pass
    js = run_harness(harness, path, mode, scratch)
    ev["ret"] = js.get("ret", "?")
    empty = {"public": [], "unref": [], "decls": [], "di": [], "hasDi": False}
    ev["fn"], ev["var"] = dict(empty), dict(empty)
    if ev["ret"] == "ok":
        ev["fn"] = {"public": js["funsyms"], "unref": js["unref_fn"], "decls": [{"id": d["id"], "sym": d["sym"]} for d in js["fns"]],
                    "di": di["fn"], "hasDi": has_di}
        ev["var"] = {"public": js["varsyms"], "unref": js["unref_var"], "decls": [{"id": d["id"], "sym": d["sym"]} for d in js["vars"]],
                     "di": di["var"], "hasDi": has_di}
    return ev


def payload_of(ev, extra_files=()):
    """Replay payload for a violation: the binary and the sources it was rendered from."""
    pl = {}
    for p in [ev.get("bin")] + list(ev.get("sources", [])) + list(extra_files):
        if p and os.path.exists(p) and os.path.getsize(p) < 4 << 20:
            with open(p, "rb") as f:
                pl[os.path.basename(p)] = f.read()
    cmd = "abidw --no-show-locs --no-corpus-path%s %s ; readelf -sW --dyn-syms -V %s\n" % (
        " --no-linux-kernel-mode" if ev.get("mode") == "nokernel" else "", os.path.basename(ev.get("bin", "")), os.path.basename(ev.get("bin", "")))
    pl["HOWTO.txt"] = cmd
    return pl


def shards(events, size):
    return [events[i:i + size] for i in range(0, len(events), size)]


def judge(c, groups, jobs=3):
    """groups: [(spec, cfg, events, shard size)].  c.validate over shards, with the rejections reported so that one
    representative of every distinct (reason, kind of binary) comes first (vf prints the first 25 violations only).
    TLC's verdicts are taken as they are; same bookkeeping as vf.Check.validate (known findings through "kf:"
    verdicts, everything else a violation)."""
    work = [(spec, cfg, sh) for (spec, cfg, events, size) in groups for sh in shards(events, size)]
    if not work:
        return
    res = vf.pmap(lambda w: (w[0], vf.tlc_validate(w[0], w[1], w[2], env=TLC_ENV)), work, jobs=jobs)
    c.cov["traces_validated_against_impl"] += sum(len(w[2]) for w in work)
    listed = {k["id"]: k for k in c.known if k.get("status") == "known"}
    rej = []
    for spec, r in res:
        for (i, ev, kid) in r["kf"]:
            if kid in listed:
                c.kf_seen[kid] = c.kf_seen.get(kid, 0) + 1
            else:
                rej.append(("matches finding %s which is not listed as known" % kid, "kf:" + kid, ev))
        for (i, ev, v) in r["bad"]:
            rej.append(("trace %s rejected (%s)" % (spec, v), ":".join(v.split(":")[:2]), ev))
    first, rest, seen, reasons = [], [], set(), {}
    for what, reason, ev in rej:
        key = (reason, ev.get("kind") if ev else None)
        (rest if key in seen else first).append((what, ev))
        seen.add(key)
        reasons[reason] = reasons.get(reason, 0) + 1
    c.cov["rejections_by_reason"] = reasons
    for what, ev in first + rest:
        c.violation(what, ev, payload_of)
