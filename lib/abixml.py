"""Projection of an ABIXML document with python's expat (independent of libxml2).  Only projects."""
import xml.parsers.expat

TYPE_REF_ATTRS = ("type-id", "method-class-id", "naming-typedef-id", "def-of-decl-id")
TYPE_ELEMS = ("type-decl", "class-decl", "union-decl", "enum-decl", "typedef-decl", "pointer-type-def", "reference-type-def",
              "qualified-type-def", "array-type-def", "function-type", "subrange")


def project(data):
    """data: bytes.  Returns dict(wf, err, defs{id:count}, refs[set], symdefs[set], symrefs[set], types{id:rec}, fns[], vars[],
    fsyms[], vsyms[], corpus{attrs})."""
    res = {"wf": True, "err": "", "defs": {}, "refs": set(), "symdefs": set(), "symrefs": set(), "types": {}, "fns": [], "vars": [],
           "fsyms": [], "vsyms": [], "corpus": {}, "nelems": 0, "declonly_ids": set()}
    stack = []          # (name, attrs, rec)
    symsec = [None]

    def start(name, attrs):
        res["nelems"] += 1
        rec = None
        if name in ("abi-corpus",) and not res["corpus"]:
            res["corpus"] = dict(attrs)
        if name in ("elf-function-symbols", "elf-variable-symbols"):
            symsec[0] = name
        if name == "elf-symbol":
            sid = attrs.get("name", "")
            if attrs.get("version"):
                sid += ("@@" if attrs.get("is-default-version") == "yes" else "@") + attrs["version"]
            res["symdefs"].add(sid)
            row = dict(attrs)
            row["id"] = sid
            (res["fsyms"] if symsec[0] == "elf-function-symbols" else res["vsyms"]).append(row)
        if "elf-symbol-id" in attrs:
            res["symrefs"].add(attrs["elf-symbol-id"])
        for a in TYPE_REF_ATTRS:
            if a in attrs:
                res["refs"].add(attrs[a])
        if "id" in attrs and name in TYPE_ELEMS:
            i = attrs["id"]
            res["defs"][i] = res["defs"].get(i, 0) + 1
            rec = {"kind": name, "id": i, "attrs": dict(attrs), "members": [], "bases": [], "enumerators": [], "params": [], "ret": None,
                   "subranges": [], "underlying": None}
            if attrs.get("is-declaration-only") == "yes":
                res["declonly_ids"].add(i)
            if i not in res["types"] or res["types"][i]["attrs"].get("is-declaration-only") == "yes":
                res["types"][i] = rec
        parent = stack[-1] if stack else None
        if name == "function-decl":
            rec = {"kind": name, "attrs": dict(attrs), "params": [], "ret": None}
            # member functions live inside member-function elements of classes; free functions directly in abi-instr/namespace
            rec["member"] = any(s[0] == "member-function" for s in stack)
            if not rec["member"]:
                res["fns"].append(rec)
        if name == "var-decl":
            inmember = parent is not None and parent[0] == "data-member"
            if inmember:
                # attach to the class
                for s in reversed(stack):
                    if s[0] in ("class-decl", "union-decl") and s[2] is not None:
                        m = dict(attrs)
                        m["layout-offset-in-bits"] = parent[1].get("layout-offset-in-bits")
                        m["access"] = parent[1].get("access")
                        m["static"] = parent[1].get("static")
                        s[2]["members"].append(m)
                        break
            else:
                res["vars"].append(dict(attrs))
        if name == "parameter":
            for s in reversed(stack):
                if s[0] in ("function-decl", "function-type") and s[2] is not None:
                    s[2]["params"].append(dict(attrs))
                    break
        if name == "return":
            for s in reversed(stack):
                if s[0] in ("function-decl", "function-type") and s[2] is not None:
                    s[2]["ret"] = attrs.get("type-id")
                    break
        if name == "enumerator":
            for s in reversed(stack):
                if s[0] == "enum-decl" and s[2] is not None:
                    s[2]["enumerators"].append((attrs.get("name"), attrs.get("value")))
                    break
        if name == "underlying-type":
            for s in reversed(stack):
                if s[0] == "enum-decl" and s[2] is not None:
                    s[2]["underlying"] = attrs.get("type-id")
                    break
        if name == "base-class":
            for s in reversed(stack):
                if s[0] == "class-decl" and s[2] is not None:
                    s[2]["bases"].append(dict(attrs))
                    break
        if name == "subrange":
            for s in reversed(stack):
                if s[0] == "array-type-def" and s[2] is not None:
                    s[2]["subranges"].append(dict(attrs))
                    break
        stack.append((name, attrs, rec))

    def end(name):
        if name in ("elf-function-symbols", "elf-variable-symbols"):
            symsec[0] = None
        stack.pop()

    p = xml.parsers.expat.ParserCreate()
    p.StartElementHandler = start
    p.EndElementHandler = end
    try:
        p.Parse(data, True)
    except xml.parsers.expat.ExpatError as ex:
        res["wf"] = False
        res["err"] = str(ex)
    return res


def well_formed(data):
    p = xml.parsers.expat.ParserCreate()
    try:
        p.Parse(data, True)
        return True
    except xml.parsers.expat.ExpatError:
        return False
