"""Projection of `abidiff --dump-diff-tree` (with hook H3) onto the event shape of spec/DiffTreeTrace.tla.  Only projects."""
import re

HARMLESS = {"ACCESS_CHANGE_CATEGORY", "COMPATIBLE_TYPE_CHANGE_CATEGORY", "HARMLESS_DECL_NAME_CHANGE_CATEGORY", "NON_VIRT_MEM_FUN_CHANGE_CATEGORY",
            "STATIC_DATA_MEMBER_CHANGE_CATEGORY", "HARMLESS_ENUM_CHANGE_CATEGORY", "HARMLESS_SYMBOL_ALIAS_CHANGE_CATEGORY", "HARMLESS_UNION_CHANGE_CATEGORY",
            "HARMLESS_DATA_MEMBER_CHANGE_CATEGORY", "TYPE_DECL_ONLY_DEF_CHANGE_CATEGORY", "FN_PARM_TYPE_TOP_CV_CHANGE_CATEGORY", "FN_PARM_TYPE_CV_CHANGE_CATEGORY",
            "FN_RETURN_TYPE_CV_CHANGE_CATEGORY", "VAR_TYPE_CV_CHANGE_CATEGORY", "VOID_PTR_TO_PTR_CHANGE_CATEGORY", "BENIGN_INFINITE_ARRAY_CHANGE_CATEGORY"}
HARMFUL = {"SIZE_OR_OFFSET_CHANGE_CATEGORY", "FN_PARM_ADD_REMOVE_CHANGE_CATEGORY"}
MARKS = {"SUPPRESSED_CATEGORY", "PRIVATE_TYPE_CATEGORY", "REDUNDANT_CATEGORY"}


def classes(catstr):
    names = [x.strip() for x in catstr.split("|") if x.strip() and x.strip() != "NO_CHANGE_CATEGORY"]
    out = set()
    unknown = []
    for n in names:
        if n in HARMLESS:
            out.add("HARMLESS")
        elif n in HARMFUL:
            out.add("HARMFUL")
        elif n == "VIRTUAL_MEMBER_CHANGE_CATEGORY":
            out.add("VIRTUAL")
        elif n in MARKS:
            pass
        else:
            unknown.append(n)
    return sorted(out), set(names), unknown


_HDR = re.compile(r"^( *)([a-z_]+_diff)\[")
_SECT = re.compile(r"^(changed functions|\s*changed variables|\s*changed unreachable types) diff tree:")


def parse(err):
    """err: the error stream of `abidiff --dump-diff-tree`.  Returns (nodes, unknown category names) or None if no H3 lines are found."""
    nodes, stack = [], []       # stack of (indent, index)
    canon = {}
    cur = None
    section = "fn"
    unknown = []
    seen_h3 = False
    for ln in err.splitlines():
        ms = _SECT.match(ln)
        if ms:
            section = "fn" if "functions" in ms.group(1) else ("var" if "variables" in ms.group(1) else "type")
            stack = []
            continue
        m = _HDR.match(ln)
        if m:
            ind = len(m.group(1))
            while stack and stack[-1][0] >= ind:
                stack.pop()
            parent = stack[-1][1] if stack else 0
            cur = {"parent": parent, "kindname": m.group(2), "kind": (section if parent == 0 else "sub"), "lcat": [], "cat": [], "sup": False, "red": False,
                   "hasLocal": False, "hasChanges": True, "filtered": False, "cls": 0}
            nodes.append(cur)
            stack.append((ind, len(nodes)))
            continue
        s = ln.strip()
        if cur is None:
            continue
        if s.startswith("@-canonical:"):
            ptr = s.split(":", 1)[1].strip()
            cur["cls"] = canon.setdefault(ptr, len(canon) + 1) if ptr not in ("0", "(nil)", "") else 0
        elif s.startswith("category:"):
            cl, names, unk = classes(s[len("category:"):])
            cur["cat"] = cl
            cur["sup"] = bool(names & {"SUPPRESSED_CATEGORY", "PRIVATE_TYPE_CATEGORY"})
            cur["red"] = "REDUNDANT_CATEGORY" in names
            unknown += unk
        elif s.startswith("local-category:"):
            cl, names, unk = classes(s[len("local-category:"):])
            cur["lcat"] = cl
            unknown += unk
        elif s.startswith("verif:"):
            seen_h3 = True
            kv = dict(x.split("=", 1) for x in s[len("verif:"):].split())
            cur["hasLocal"] = kv.get("has-local-changes", "0") != "0"
            cur["hasChanges"] = kv.get("has-changes") == "1"
            cur["filtered"] = kv.get("is-filtered-out") == "1"
            if kv.get("class-suppressed") == "1":
                cur["sup"] = True
    if not seen_h3:
        return None
    return nodes, sorted(set(unknown))
