"""Projection of `abidiff --dump-diff-tree` (with hook H3) onto the event shape of spec/DiffTreeTrace.tla.  Only projects."""
import re

HARMLESS = {"ACCESS_CHANGE_CATEGORY", "COMPATIBLE_TYPE_CHANGE_CATEGORY", "HARMLESS_DECL_NAME_CHANGE_CATEGORY", "NON_VIRT_MEM_FUN_CHANGE_CATEGORY",
            "STATIC_DATA_MEMBER_CHANGE_CATEGORY", "HARMLESS_ENUM_CHANGE_CATEGORY", "HARMLESS_SYMBOL_ALIAS_CHANGE_CATEGORY", "HARMLESS_UNION_CHANGE_CATEGORY",
            "HARMLESS_DATA_MEMBER_CHANGE_CATEGORY", "TYPE_DECL_ONLY_DEF_CHANGE_CATEGORY", "FN_PARM_TYPE_TOP_CV_CHANGE_CATEGORY", "FN_PARM_TYPE_CV_CHANGE_CATEGORY",
            "FN_RETURN_TYPE_CV_CHANGE_CATEGORY", "VAR_TYPE_CV_CHANGE_CATEGORY", "VOID_PTR_TO_PTR_CHANGE_CATEGORY", "BENIGN_INFINITE_ARRAY_CHANGE_CATEGORY"}
HARMFUL = {"SIZE_OR_OFFSET_CHANGE_CATEGORY", "FN_PARM_ADD_REMOVE_CHANGE_CATEGORY"}
MARKS = {"SUPPRESSED_CATEGORY", "PRIVATE_TYPE_CATEGORY", "REDUNDANT_CATEGORY"}


def classes(catstr):
    names = [x.strip() for x in catstr.split("|") if x.strip() and x.strip() != "NO_CHANGE_CATEGORY"]
    out = set()
    unknown = []
    for n in names:
        if n in HARMLESS:
            out.add("HARMLESS")
        elif n in HARMFUL:
            out.add("HARMFUL")
        elif n == "VIRTUAL_MEMBER_CHANGE_CATEGORY":
            out.add("VIRTUAL")
        elif n in MARKS:
            pass
        else:
            unknown.append(n)
    return sorted(out), set(names), unknown


_HDR = re.compile(r"^( *)([a-z_]+_diff)\[")
_SECT = re.compile(r"^(changed functions|\s*changed variables|\s*changed unreachable types) diff tree:")


def parse(err):
    """err: the error stream of `abidiff --dump-diff-tree`.  Returns (nodes, unknown category names) or None if no H3 lines are found."""
    nodes, stack = [], []       # stack of (indent, index)
    canon = {}
    cur = None
    section = "fn"
    unknown = []
    seen_h3 = False
    for ln in err.splitlines():
        ms = _SECT.match(ln)
        if ms:
            section = "fn" if "functions" in ms.group(1) else ("var" if "variables" in ms.group(1) else "type")
            stack = []
            continue
        m = _HDR.match(ln)
        if m:
            ind = len(m.group(1))
            while stack and stack[-1][0] >= ind:
                stack.pop()
            parent = stack[-1][1] if stack else 0
            cur = {"parent": parent, "kindname": m.group(2), "kind": (section if parent == 0 else "sub"), "lcat": [], "cat": [], "sup": False, "red": False,
                   "hasLocal": False, "hasChanges": True, "filtered": False, "cls": 0, "lsup": False}
            nodes.append(cur)
            stack.append((ind, len(nodes)))
            continue
        s = ln.strip()
        if cur is None:
            continue
        if s.startswith("@-canonical:"):
            ptr = s.split(":", 1)[1].strip()
            cur["cls"] = canon.setdefault(ptr, len(canon) + 1) if ptr not in ("0", "(nil)", "") else 0
        elif s.startswith("category:"):
            cl, names, unk = classes(s[len("category:"):])
            cur["cat"] = cl
            cur["sup"] = bool(names & {"SUPPRESSED_CATEGORY", "PRIVATE_TYPE_CATEGORY"})
            cur["red"] = "REDUNDANT_CATEGORY" in names
            unknown += unk
        elif s.startswith("local-category:"):
            cl, names, unk = classes(s[len("local-category:"):])
            cur["lcat"] = cl
            cur["lsup"] = bool(names & {"SUPPRESSED_CATEGORY", "PRIVATE_TYPE_CATEGORY"})     # a suppression specification matched the node itself
            unknown += unk
        elif s.startswith("verif:"):
            seen_h3 = True
            kv = dict(x.split("=", 1) for x in s[len("verif:"):].split())
            cur["hasLocal"] = kv.get("has-local-changes", "0") != "0"
            cur["hasChanges"] = kv.get("has-changes") == "1"
            cur["filtered"] = kv.get("is-filtered-out") == "1"
            if kv.get("class-suppressed") == "1":
                cur["sup"] = True
    if not seen_h3:
        return None
    return nodes, sorted(set(unknown))


def tree_event(abidiff, a, b, opts, env, case, suppr=None, base=None, extra=None):
    """One DiffTreeTrace event: the forest `abidiff --dump-diff-tree <opts> a b` dumps (hook H3) together with what the same command
    without the dump printed and returned.  -> ("ok", event) | ("discard", reason) | None (no H3 lines: not a hooks build).
    `base` is the vf.Res of the run without --dump-diff-tree, if the caller already has it."""
    import vf, report, campaign
    cmd = [abidiff, "--no-default-suppression"] + list(opts) + (["--suppressions", suppr] if suppr else [])
    r = base if base is not None else vf.run(cmd + [a, b], env=env)
    t = vf.run(cmd + ["--dump-diff-tree", a, b], env=env)
    pt = parse(t.err)
    if pt is None:
        return None
    if t.out != r.out:
        return ("discard", "dump-run-prints-another-report")
    nodes, unknown = pt
    if unknown:
        return ("discard", "unknown-category-name")
    if len(nodes) > 60:
        return ("discard", "tree-too-large")
    rep = report.parse(r.out)
    S = rep["summary"]
    g = lambda part, k: S.get(part, {}).get(k, 0)
    ev = {"e": "Tree", "case": case, "opts": " ".join(opts), "nodes": nodes, "showRed": "--redundant" in opts, "allowHarmless": "--harmless" in opts,
          "allowHarmful": "--no-harmful" not in opts, "sumChangedFns": g("fns", "changed"), "sumFilteredFns": g("fns", "changed_f"),
          "sumChangedVars": g("vars", "changed"), "sumFilteredVars": g("vars", "changed_f"),
          "netRemoved": g("fns", "removed") + g("vars", "removed") + g("fsyms", "removed") + g("vsyms", "removed"),
          "netAdded": g("fns", "added") + g("vars", "added") + g("fsyms", "added") + g("vsyms", "added"),
          "sonameOrArch": rep["soname"] or rep["arch"], "exit": r.exit, "ret": campaign.retof(t), "suppr": bool(suppr), "mutKind": "",
          "leaf": "--leaf-changes-only" in opts, "leafTypes": rep["leaf"].get("types", 0), "leafTypesF": rep["leaf"].get("types_f", 0),
          "leafArtifacts": rep["leaf"].get("artifacts", 0), "leafArtifactsF": rep["leaf"].get("artifacts_f", 0)}
    if extra:
        ev.update(extra)
    return ("ok", ev)
