"""Shared plumbing for /verif checks.  Python only renders, executes and projects; TLC decides.

  build(*variants)            private build of /repo's working tree (bin/build)
  tool(variant, name)         path of a privately built tool
  run(cmd, ...)               run a process hermetically, classify its termination
  tlc_check(...)              model-check a module, return TLC's own state counts
  tlc_generate(...)           run a generator configuration, return the JSON cases TLC printed
  tlc_validate(...)           validate an ndjson trace against a *Trace.tla module, return per-event verdicts
  Check                       per-property bookkeeping: evidence file, known findings, VIOLATION lines, exit status
"""
import json, os, re, shutil, signal, subprocess, sys, time, hashlib, tempfile, random

VERIF = os.path.dirname(os.path.dirname(os.path.abspath(__file__)))
REPO = os.environ.get("VERIF_REPO", "/repo")
SPEC = os.path.join(VERIF, "spec")
WORK = os.environ.get("VERIF_WORK", os.path.join(VERIF, "work"))
JOBS = int(os.environ.get("VERIF_JOBS", "16"))
TLC_JAR = "/opt/veriftools/tla/tla2tools.jar:/opt/veriftools/tla/CommunityModules-deps.jar"


# ----------------------------------------------------------------------------------------------- builds
def build(*variants):
    r = subprocess.run([os.path.join(VERIF, "bin", "build")] + list(variants),
                       stdout=subprocess.PIPE, stderr=subprocess.PIPE, text=True)
    if r.returncode != 0:
        sys.stderr.write(r.stderr[-4000:])
        infra("private build of %s failed" % (variants,))


BUILD = os.environ.get("VERIF_BUILD", os.path.join(VERIF, "build"))
EVIDENCE = os.environ.get("VERIF_EVIDENCE", os.path.join(VERIF, "evidence"))     # development runs against a scratch tree write elsewhere


def tool(variant, name):
    return os.path.join(BUILD, variant, "bin", name)


def bdir(variant):
    return os.path.join(BUILD, variant)


def build_harness(variant, name, extra_flags=()):
    """Compile harness/<name>.cc against the private build; returns the binary path."""
    src = os.path.join(VERIF, "harness", name + ".cc")
    B = bdir(variant)
    out = os.path.join(B, "bin", "h_" + name)
    lib = os.path.join(B, "obj", "libabigail.a")
    if os.path.exists(out) and os.path.getmtime(out) >= max(os.path.getmtime(src), os.path.getmtime(lib)):
        return out
    san = {"hooks": [], "plain": [], "asan": ["-fsanitize=address,undefined", "-fno-sanitize-recover=undefined", "-g1"],
           "tsan": ["-fsanitize=thread", "-g1"]}[variant]
    cmd = ["g++", "-std=c++11", "-w", "-O0", "-DLIBABIGAIL_VERIF", "-DHAVE_CONFIG_H", "-I/usr/include/libxml2",
           "-I" + B, "-I" + B + "/include", "-I" + B + "/src"] + san + list(extra_flags) + \
          [src, "-o", out + ".tmp", lib, "-lxml2", "-lelf", "-ldw", "-lpthread"]
    r = subprocess.run(cmd, stdout=subprocess.PIPE, stderr=subprocess.STDOUT, text=True)
    if r.returncode != 0:
        sys.stderr.write(r.stdout[-4000:])
        infra("harness %s failed to compile" % name)
    os.replace(out + ".tmp", out)
    return out


# ----------------------------------------------------------------------------------------------- processes
class Res:
    __slots__ = ("exit", "sig", "out", "err", "timeout", "wall", "san", "abort_assert", "top")

    def d(self):
        return {k: getattr(self, k) for k in ("exit", "sig", "timeout", "san", "abort_assert", "top")}


_EMPTY = None


def empty_file():
    global _EMPTY
    if _EMPTY is None:
        os.makedirs(WORK, exist_ok=True)
        _EMPTY = os.path.join(WORK, "empty")
        open(_EMPTY, "w").close()
    return _EMPTY


def henv(scratch=None, extra=None):
    e = {"PATH": os.environ.get("PATH", "/usr/bin:/bin"), "LC_ALL": "C", "LANG": "C",
         "LIBABIGAIL_DEFAULT_SYSTEM_SUPPRESSION_FILE": empty_file(),
         "LIBABIGAIL_DEFAULT_USER_SUPPRESSION_FILE": empty_file(),
         "ASAN_OPTIONS": "detect_leaks=0:abort_on_error=0:exitcode=86:allocator_may_return_null=1:max_allocation_size_mb=2048",
         "UBSAN_OPTIONS": "print_stacktrace=1:halt_on_error=1:exitcode=87",
         "TSAN_OPTIONS": "exitcode=66:halt_on_error=0"}
    s = scratch or WORK
    e["HOME"] = s
    e["TMPDIR"] = s
    e["XDG_CACHE_HOME"] = s
    if extra:
        e.update(extra)
    return e


_SAN_RE = re.compile(r"(ERROR: AddressSanitizer: [\w-]+|runtime error: [^\n]*|WARNING: ThreadSanitizer: [^\n(]*|AddressSanitizer:DEADLYSIGNAL)")
_FRAME_RE = re.compile(r"^\s*#\d+ 0x[0-9a-f]+ in (\S+)(?: ([^\n]*))?", re.M)
_ASSERT_RE = re.compile(r"in (.*?): Assertion `(.*?)' failed")
_RUNTIME_FRAMES = ("__asan", "__interceptor", "__sanitizer", "__ubsan", "operator new", "operator delete", "malloc", "free",
                   "__GI_", "raise", "abort", "__assert", "_start", "__libc", "memcpy", "strlen", "memcmp", "strcmp")


def run(cmd, env=None, timeout=60, stdin=None, cwd=None, binary=False, _retry=True):
    t0 = time.time()
    r = Res()
    if _retry and stdin is None and timeout <= 300:
        # a wall-clock time-out on a loaded machine says nothing about the command: one confirming run with six times the budget
        r = run(cmd, env=env, timeout=timeout, cwd=cwd, binary=binary, _retry=False)
        if not r.timeout:
            return r
        return run(cmd, env=env, timeout=6 * timeout, cwd=cwd, binary=binary, _retry=False)
    try:
        p = subprocess.run(cmd, env=env if env is not None else henv(), stdin=stdin if stdin is not None else subprocess.DEVNULL,
                           stdout=subprocess.PIPE, stderr=subprocess.PIPE, timeout=timeout, cwd=cwd)
        r.timeout = False
        rc = p.returncode
        out, err = p.stdout, p.stderr
    except subprocess.TimeoutExpired as ex:
        r.timeout = True
        rc = -9
        out, err = ex.stdout or b"", ex.stderr or b""
    r.wall = time.time() - t0
    r.exit = rc if rc >= 0 else 128 - rc
    r.sig = -rc if rc < 0 else 0
    r.out = out if binary else out.decode("utf-8", "replace")
    r.err = err.decode("utf-8", "replace")
    m = _SAN_RE.search(r.err)
    r.san = m.group(1)[:120] if m else ""
    m = _ASSERT_RE.search(r.err)
    r.abort_assert = (m.group(1).split("(")[0].split()[-1] if m else "")
    r.top = ""
    if r.san:
        for fm in _FRAME_RE.finditer(r.err):
            fn = fm.group(1)
            if not fn.startswith(_RUNTIME_FRAMES):
                r.top = fn[:100]
                break
    return r


def pmap(fn, items, jobs=None):
    """Parallel map with threads (work is in subprocesses)."""
    from concurrent.futures import ThreadPoolExecutor
    with ThreadPoolExecutor(max_workers=jobs or JOBS) as ex:
        return list(ex.map(fn, items))


def sha(b):
    if isinstance(b, str):
        b = b.encode("utf-8", "replace")
    return hashlib.sha256(b).hexdigest()[:16]


# ----------------------------------------------------------------------------------------------- TLC
def infra(msg):
    print("INFRASTRUCTURE-FAILURE: " + msg)
    sys.stdout.flush()
    sys.exit(3)


import itertools, threading
_ctr = itertools.count(1)
_ctr_lock = threading.Lock()


def _uniq():
    with _ctr_lock:
        return next(_ctr)


def _tlc(spec, cfg, args, env=None, timeout=1500, heap="8g"):
    md = os.path.join(WORK, "tlc", "%d_%d" % (os.getpid(), _uniq()))
    os.makedirs(md, exist_ok=True)
    e = dict(os.environ)
    if env:
        e.update(env)
    nw = 1
    if "-workers" in args:
        try:
            nw = int(args[args.index("-workers") + 1])
        except ValueError:
            nw = JOBS
    cmd = ["java", "-XX:+UseParallelGC", "-XX:ParallelGCThreads=%d" % max(2, min(8, nw)), "-XX:CICompilerCount=2", "-Xmx" + heap,
           "-cp", TLC_JAR, "tlc2.TLC", "-noGenerateSpecTE", "-metadir", md, "-config", cfg] + args + [spec]
    t0 = time.time()
    slot = _tlc_slot()
    try:
        p = subprocess.run(cmd, cwd=SPEC, env=e, stdout=subprocess.PIPE, stderr=subprocess.STDOUT, timeout=timeout, text=True)
        out, rc = p.stdout, p.returncode
    except subprocess.TimeoutExpired as ex:
        out, rc = (ex.stdout or b"").decode("utf-8", "replace") if isinstance(ex.stdout, bytes) else (ex.stdout or ""), 124
    finally:
        slot.close()
    shutil.rmtree(md, ignore_errors=True)
    return rc, out, time.time() - t0


def _tlc_slot(nslots=8):
    """Machine-wide limit on concurrently running TLC JVMs (several checks may run at once): take one of nslots lock files."""
    import fcntl
    d = "/tmp/verif-tlc-slots"
    os.makedirs(d, exist_ok=True)
    while True:
        for i in range(nslots):
            f = open(os.path.join(d, "slot%d" % i), "w")
            try:
                fcntl.flock(f, fcntl.LOCK_EX | fcntl.LOCK_NB)
                return f
            except OSError:
                f.close()
        time.sleep(0.2)


_ST = re.compile(r"(\d+) states generated, (\d+) distinct states found")
_DEPTH = re.compile(r"The depth of the complete state graph search is (\d+)")


def _printed(out):
    res = []
    for ln in out.splitlines():
        if ln.startswith('"{') or ln.startswith('"['):
            try:
                res.append(json.loads(json.loads(ln)))
            except Exception:
                pass
    return res


def tlc_check(spec, cfg, workers=None, timeout=1500, env=None, heap="8g", expect_ok=True, extra=()):
    """Exhaustive model-check.  Returns dict(ok, rc, generated, distinct, depth, out, printed)."""
    rc, out, wall = _tlc(spec, cfg, ["-workers", str(workers or JOBS)] + list(extra), env=env, timeout=timeout, heap=heap)
    m = None
    for m in _ST.finditer(out):
        pass
    d = _DEPTH.search(out)
    res = {"ok": rc == 0, "rc": rc, "generated": int(m.group(1)) if m else 0, "distinct": int(m.group(2)) if m else 0,
           "depth": int(d.group(1)) if d else 0, "out": out, "wall": wall, "printed": _printed(out), "spec": spec, "cfg": cfg}
    if rc not in (0, 10, 11, 12, 13):
        sys.stderr.write(out[-3000:])
        infra("TLC failed on %s/%s (rc=%d)" % (spec, cfg, rc))
    return res


def tlc_generate(spec, cfg, simulate=None, depth=None, seed=None, workers=1, timeout=1500, env=None, heap="4g"):
    """Run a generator configuration; the cases are the JSON lines TLC prints (PrintT(ToJson(..)))."""
    args = ["-workers", str(workers)]
    if simulate:
        args += ["-simulate", "num=%d" % simulate, "-depth", str(depth or 30)]
        if seed is not None:
            args += ["-seed", str(seed)]
    rc, out, wall = _tlc(spec, cfg, args, env=env, timeout=timeout, heap=heap)
    if rc != 0:
        sys.stderr.write(out[-3000:])
        infra("TLC generator failed on %s/%s (rc=%d)" % (spec, cfg, rc))
    m = None
    for m in _ST.finditer(out):
        pass
    return {"cases": _printed(out), "generated": int(m.group(1)) if m else 0, "distinct": int(m.group(2)) if m else 0, "wall": wall}


def tlc_validate(spec, cfg, events, timeout=1500, keep=None, heap="4g", env=None):
    """Validate a list of event dicts against <spec> (a *Trace.tla).

    Trace modules consume one event per step (variable l) and set `verdict`; the `Report` invariant prints a JSON
    record for every event whose verdict is not "ok".  Acceptance = all events consumed (diameter - 1 = Len(T),
    checked by the module's POSTCONDITION) and no "bad" verdict.
    Returns dict(accepted, consumed, n, bad:[(index, event, verdict)], kf:[(index, event, id)], out)."""
    os.makedirs(os.path.join(WORK, "traces"), exist_ok=True)
    path = keep or os.path.join(WORK, "traces", "%s_%d_%d.ndjson" % (os.path.basename(spec), os.getpid(), _uniq()))
    with open(path, "w") as f:
        for ev in events:
            f.write(json.dumps(ev, separators=(",", ":")) + "\n")
    e = {"TRACE": path}
    if env:
        e.update(env)
    rc, out, wall = _tlc(spec, cfg, ["-workers", "1"], env=e, timeout=timeout, heap=heap)
    if rc not in (0, 10, 11, 12, 13):
        sys.stderr.write(out[-3000:])
        infra("TLC trace validation failed on %s (rc=%d)" % (spec, rc))
    d = _DEPTH.search(out)
    consumed = (int(d.group(1)) - 1) if d else 0
    bad, kf, disc = [], [], []
    for rec in _printed(out):
        if not isinstance(rec, dict) or "i" not in rec:
            continue
        i = rec["i"]
        ev = events[i - 1] if 1 <= i <= len(events) else None
        v = rec.get("v", "bad")
        if v.startswith("kf:"):
            kf.append((i, ev, v[3:]))
        elif v.startswith("discard:"):
            disc.append((i, ev, v[8:]))
        else:
            bad.append((i, ev, v))
    accepted = rc == 0 and consumed == len(events) and not bad
    if consumed < len(events) and not bad:
        # the trace specification has no step for event consumed+1
        i = consumed + 1
        bad.append((i, events[i - 1], "no-step"))
    if not keep:
        try:
            os.remove(path)
        except OSError:
            pass
    return {"accepted": accepted, "consumed": consumed, "n": len(events), "bad": bad, "kf": kf, "discarded": disc, "out": out, "rc": rc, "wall": wall}


# ----------------------------------------------------------------------------------------------- per-check bookkeeping
def load_known():
    p = os.path.join(VERIF, "known-findings.jsonl")
    res = []
    if os.path.exists(p):
        for ln in open(p):
            ln = ln.strip()
            if ln and not ln.startswith("#"):
                res.append(json.loads(ln))
    return res


class Check:
    def __init__(self, pid, level):
        self.pid = pid
        self.level = level
        self.tier = os.environ.get("VERIF_TIER", "quick")
        self.seed = int(os.environ.get("VERIF_SEED", "1"))
        self.t0 = time.time()
        self.cov = {"evaluations": 0, "distinct_nontrivial": 0, "rule": "", "samples": [], "states": 0, "transitions": 0,
                    "traces_validated_against_impl": 0, "discarded": {}, "models": []}
        self.assumptions = []
        self.violations = []     # (what, replay path)
        self.kf_seen = {}        # id -> count
        self.known = [k for k in load_known() if k.get("property") == pid]
        self.rng = random.Random(self.seed * 1000003 + int(pid[1:]))
        self.replay_dir = os.path.join(EVIDENCE, "replay", pid)
        self.workdir = os.path.join(WORK, pid)
        shutil.rmtree(self.workdir, ignore_errors=True)
        os.makedirs(self.workdir, exist_ok=True)
        shutil.rmtree(self.replay_dir, ignore_errors=True)

    @property
    def thorough(self):
        return self.tier == "thorough"

    # -- models
    def model(self, spec, cfg, must_hold=True, **kw):
        """Model-check spec/cfg; its state counts go to the evidence.  A property violation in the *model* with
        must_hold=True is an infrastructure failure of the check itself (the faithful model disagrees with the
        property without a listed finding) -- it is reported, not hidden."""
        r = tlc_check(spec, cfg, **kw)
        self.cov["states"] += r["distinct"]
        self.cov["transitions"] += r["generated"]
        self.cov["models"].append({"spec": spec, "cfg": cfg, "distinct": r["distinct"], "generated": r["generated"],
                                   "depth": r["depth"], "holds": r["ok"], "wall_s": round(r["wall"], 1)})
        if must_hold and not r["ok"]:
            sys.stderr.write(r["out"][-4000:])
            infra("model %s/%s violates its property (rc=%d); the model must be corrected or the deviation listed" % (spec, cfg, r["rc"]))
        return r

    # -- traces
    def validate(self, spec, cfg, events, case_of=None, traces=None, **kw):
        """Validate events; sort verdicts into known findings and violations.  case_of(event) -> replay payload."""
        if not events:
            return None
        r = tlc_validate(spec, cfg, events, **kw)
        self.cov["traces_validated_against_impl"] += traces if traces is not None else sum(1 for e in events if e.get("e") != "Reset")
        listed = {k["id"]: k for k in self.known if k.get("status") == "known"}
        for (i, ev, kid) in r["kf"]:
            if kid in listed:
                self.kf_seen[kid] = self.kf_seen.get(kid, 0) + 1
            else:
                self.violation("event %d matches finding %s which is not listed as known" % (i, kid), ev, case_of)
        for (i, ev, v) in r.get("discarded", []):
            self.discard(v)
        for (i, ev, v) in r["bad"]:
            self.violation("trace %s rejected at event %d (%s)" % (spec, i, v), ev, case_of)
        return r

    def violation(self, what, ev=None, case_of=None, payload=None):
        n = len(self.violations) + 1
        d = os.path.join(self.replay_dir, "v%03d" % n)
        if n <= 25:
            os.makedirs(d, exist_ok=True)
            with open(os.path.join(d, "event.json"), "w") as f:
                json.dump({"what": what, "event": ev}, f, indent=1, default=str)
            pl = payload
            if pl is None and case_of and ev is not None:
                try:
                    pl = case_of(ev)
                except Exception as ex:  # never let the replay writer hide the violation
                    pl = {"error": str(ex)}
            if pl:
                for name, content in pl.items():
                    mode = "wb" if isinstance(content, bytes) else "w"
                    with open(os.path.join(d, name), mode) as f:
                        f.write(content if isinstance(content, (bytes, str)) else json.dumps(content, indent=1, default=str))
        self.violations.append((what, d))

    def sample(self, s, limit=5):
        if len(self.cov["samples"]) < limit:
            self.cov["samples"].append(s)

    def discard(self, reason, n=1):
        self.cov["discarded"][reason] = self.cov["discarded"].get(reason, 0) + n

    def finish(self):
        cov = self.cov
        if not cov["samples"]:
            cov["samples"] = ["(no case reached the sampling point)"]
        cov["known_findings_observed"] = self.kf_seen
        ev = {"property_id": self.pid, "tier": self.tier, "seed": self.seed, "level": self.level, "coverage": cov,
              "assumptions": self.assumptions, "wall_s": round(time.time() - self.t0, 1), "violations": len(self.violations)}
        os.makedirs(EVIDENCE, exist_ok=True)
        with open(os.path.join(EVIDENCE, self.pid + ".json"), "w") as f:
            json.dump(ev, f, indent=1, default=str)
        for k in self.known:
            if k.get("status") == "known":
                print("KNOWN-FINDING: property=%s %s [%s] (observed %d times in this run)" %
                      (self.pid, k["what"], k["id"], self.kf_seen.get(k["id"], 0)))
        for what, d in self.violations[:25]:
            print("VIOLATION property=%s replay=%s" % (self.pid, d))
            print("#   " + what)
        if len(self.violations) > 25:
            print("# ... %d further violations not listed" % (len(self.violations) - 25))
        print("%s %s: evaluations=%d nontrivial=%d states=%d traces=%d violations=%d wall=%.0fs" %
              (self.pid, self.tier, cov["evaluations"], cov["distinct_nontrivial"], cov["states"],
               cov["traces_validated_against_impl"], len(self.violations), time.time() - self.t0))
        sys.stdout.flush()
        shutil.rmtree(self.workdir, ignore_errors=True)
        sys.exit(1 if self.violations else 0)


def replay_event(spec, cfg, path):
    """Generic replay: re-judge the recorded event of a violation directory with the trace specification."""
    ev = json.load(open(os.path.join(path, "event.json")))["event"]
    r = tlc_validate(spec, cfg, [ev])
    print(json.dumps(ev)[:2000])
    print("accepted" if r["accepted"] else "rejected: %s" % (r["bad"] or r["kf"],))
    return 0 if r["accepted"] else 1
