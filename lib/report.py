"""Projection of abidiff's textual report (default and leaf reporters) into a record.  Only projects."""
import re

_SUM = re.compile(r"^(Functions|Variables) changes summary: (\d+) Removed(?: \((\d+) filtered out\))?, (\d+) Changed(?: \((\d+) filtered out\))?, (\d+) Added(?: \((\d+) filtered out\))? (?:function|variable)s?$")
_SYM = re.compile(r"^(Function|Variable) symbols changes summary: (\d+) Removed(?: \((\d+) filtered out\))?, (\d+) Added(?: \((\d+) filtered out\))? (?:function|variable) symbols? not referenced by debug info$")
_UNREACH = re.compile(r"^Unreachable types summary: (\d+) removed(?: \((\d+) filtered out\))?, (\d+) changed(?: \((\d+) filtered out\))?, (\d+) added(?: \((\d+) filtered out\))? types?$")
_LEAFSUM = re.compile(r"^Leaf changes summary: (\d+) artifacts? changed(?: \((\d+) filtered out\))?$")
_LEAFTYPES = re.compile(r"^Changed leaf types summary: (\d+)(?: \((\d+) filtered out\))? leaf types? changed$")
_LEAFIF = re.compile(r"^(Removed/Changed/Added) (functions|variables) summary: (\d+) Removed(?: \((\d+) filtered out\))?, (\d+) Changed(?: \((\d+) filtered out\))?, (\d+) Added(?: \((\d+) filtered out\))? (?:function|variable)s?$")
_SEC = [
    ("removed_fns", re.compile(r"^(\d+) Removed functions?:$")),
    ("added_fns", re.compile(r"^(\d+) Added functions?:$")),
    ("changed_fns", re.compile(r"^(\d+) functions? with (?:some )?(?:in)?direct sub-type changes?:$")),
    ("changed_fns", re.compile(r"^(\d+) functions? with incompatible sub-type changes?:$")),
    ("removed_vars", re.compile(r"^(\d+) Removed variables?:$")),
    ("added_vars", re.compile(r"^(\d+) Added variables?:$")),
    ("changed_vars", re.compile(r"^(\d+) Changed variables?:$")),
    ("removed_fsyms", re.compile(r"^(\d+) Removed function symbols? not referenced by debug info:$")),
    ("added_fsyms", re.compile(r"^(\d+) Added function symbols? not referenced by debug info:$")),
    ("removed_vsyms", re.compile(r"^(\d+) Removed variable symbols? not referenced by debug info:$")),
    ("added_vsyms", re.compile(r"^(\d+) Added variable symbols? not referenced by debug info:$")),
    ("removed_types", re.compile(r"^(\d+) removed types? unreachable from any public interface:$")),
    ("changed_types", re.compile(r"^(\d+) changed types? unreachable from any public interface:$")),
    ("added_types", re.compile(r"^(\d+) added types? unreachable from any public interface:$")),
]
_ENTRY = re.compile(r"^  \[([DAC])\] (.*)$")
_NAME = re.compile(r"\b((?:fn|var)\d+)\b")
_ID = re.compile(r"\b((?:fn|var)\d+)(?:@@?(V\d+))?")
_SYMNAME = re.compile(r"^\s*\[[DAC]\]\s+'?(?:function |method )?.*?([A-Za-z_][\w@.]*)'?\s*(?:\{.*\})?$")


def N(x):
    return int(x) if x else 0


def parse(text):
    r = {"summary": {}, "sections": {}, "entries": {}, "names": {}, "ids": {}, "soname": False, "arch": False, "lines": len(text.splitlines()),
         "leaf": {}, "unknown_headers": []}
    cur = None
    for ln in text.splitlines():
        m = _SUM.match(ln)
        if m:
            k = "fns" if m.group(1) == "Functions" else "vars"
            r["summary"][k] = {"removed": N(m.group(2)), "removed_f": N(m.group(3)), "changed": N(m.group(4)), "changed_f": N(m.group(5)),
                               "added": N(m.group(6)), "added_f": N(m.group(7))}
            continue
        m = _SYM.match(ln)
        if m:
            k = "fsyms" if m.group(1) == "Function" else "vsyms"
            r["summary"][k] = {"removed": N(m.group(2)), "removed_f": N(m.group(3)), "changed": 0, "changed_f": 0, "added": N(m.group(4)), "added_f": N(m.group(5))}
            continue
        m = _UNREACH.match(ln)
        if m:
            r["summary"]["types"] = {"removed": N(m.group(1)), "removed_f": N(m.group(2)), "changed": N(m.group(3)), "changed_f": N(m.group(4)),
                                     "added": N(m.group(5)), "added_f": N(m.group(6))}
            continue
        m = _LEAFSUM.match(ln)
        if m:
            r["leaf"]["artifacts"] = N(m.group(1))
            r["leaf"]["artifacts_f"] = N(m.group(2))
            continue
        m = _LEAFTYPES.match(ln)
        if m:
            r["leaf"]["types"] = N(m.group(1))
            r["leaf"]["types_f"] = N(m.group(2))
            continue
        m = _LEAFIF.match(ln)
        if m:
            k = "fns" if m.group(2) == "functions" else "vars"
            r["summary"][k] = {"removed": N(m.group(3)), "removed_f": N(m.group(4)), "changed": N(m.group(5)), "changed_f": N(m.group(6)),
                               "added": N(m.group(7)), "added_f": N(m.group(8))}
            continue
        if ln.startswith("SONAME changed"):
            r["soname"] = True
        if ln.startswith("architecture changed"):
            r["arch"] = True
        hit = False
        for name, rx in _SEC:
            m = rx.match(ln)
            if m:
                cur = name
                r["sections"][name] = r["sections"].get(name, 0) + int(m.group(1))
                r["entries"].setdefault(name, 0)
                r["names"].setdefault(name, [])
                r["ids"].setdefault(name, [])
                hit = True
                break
        if hit:
            continue
        if re.match(r"^\d+ \S.*:$", ln) and not ln.startswith(" "):
            r["unknown_headers"].append(ln)
            cur = None
            continue
        m = _ENTRY.match(ln)
        if m and cur:
            r["entries"][cur] += 1
            nm = _NAME.findall(m.group(2))
            r["names"][cur].append(nm[0] if nm else m.group(2)[:80])
            ids = _ID.findall(m.group(2))
            if ids:
                r["ids"][cur].append([ids[-1][0], ids[-1][1]])     # the symbol id is the last one on the line ({...} part)
    return r


def net(summary_part):
    """the numbers the summary prints are already net (total minus filtered); the parenthesised number is what was filtered"""
    return {k: summary_part[k] for k in ("removed", "changed", "added")}


def has_net_change(r):
    for part in r["summary"].values():
        n = net(part)
        if n["removed"] or n["changed"] or n["added"]:
            return True
    if r["leaf"].get("artifacts", 0) > 0:
        return True
    return r["soname"] or r["arch"]
