"""Observers for the symbol-table checks (C17, C18, C28).  Nothing here judges: each function turns the output of a
reader into the rows / records the trace specifications (spec/SymtabTrace.tla, spec/CorpusTrace.tla) consume.

  readelf_tables(path)   independent ground truth: `readelf -hSW` + `readelf -sW --dyn-syms -V` -> etype, sections,
                         .symtab rows, .dynsym rows (name, type, bind, vis, shndx, value, size, version, isDefault)
  abidw_symbols(xml)     libabigail's view: <elf-function-symbols>/<elf-variable-symbols> of abidw's output
  api_symbols(js)        libabigail's view through the public API (harness/corpus_proj.cc)
  dwarf_defs(path)       `readelf --debug-dump=info`: names and addresses of the functions / variables *defined* by DIEs
"""
import re, json
import xml.etree.ElementTree as ET
import vf


class Unusable(Exception):
    """The independent reader's output cannot be turned into facts reliably: the case is discarded, never judged."""


_TOK = r"(<(?:OS|processor) specific>: \d+|<unknown>: \d+|\S+)"
_SYM = re.compile(r"^\s*(\d+):\s+([0-9a-fA-F]+)\s+(\S+)\s+" + _TOK + r"\s+" + _TOK + r"\s+(\S+)(?:\s+\[[^\]]*\])?\s+(UND|ABS|COM|\d+)(?: (.*))?$")
# readelf names STT_GNU_IFUNC / STB_GNU_UNIQUE only when EI_OSABI says GNU (ld.lld leaves it 0): both are number 10
_OSNUM_TYPE = {"<OS specific>: 10": "IFUNC"}
_OSNUM_BIND = {"<OS specific>: 10": "UNIQUE"}
_TAB = re.compile(r"^Symbol table '([^']*)' contains (\d+) entr")
_VERENT = re.compile(r"\s*([0-9a-fA-F]+)([h ])\(([^)]*)\)")
_SEC = re.compile(r"^\s*\[\s*(\d+)\]\s(.{17})\s+(\S+)\s+[0-9a-f]{8,16}\s")
_TYPES = {"NOTYPE", "OBJECT", "FUNC", "SECTION", "FILE", "COMMON", "TLS", "IFUNC"}
_BINDS = {"LOCAL", "GLOBAL", "WEAK", "UNIQUE"}
_VISS = {"DEFAULT", "INTERNAL", "HIDDEN", "PROTECTED"}


def _readelf(args, path, timeout=60):
    r = vf.run(["readelf"] + args + [path], timeout=timeout)
    if r.exit != 0 or r.timeout:
        raise Unusable("readelf %s failed: %s" % (" ".join(args), r.err[-200:]))
    return r.out


def readelf_tables(path):
    """-> dict(etype, sections=[{name,type}], hasSymtab, hasDynsym, symtab=[rows], dynsym=[rows])"""
    out = _readelf(["-hSW", "-sW", "--dyn-syms", "-V"], path)
    m = re.search(r"^\s*Type:\s+(\w+)", out, re.M)
    if not m or m.group(1) not in ("REL", "EXEC", "DYN"):
        raise Unusable("ELF type %s" % (m.group(1) if m else "?"))
    etype = m.group(1)
    sections = []
    for ln in out.splitlines():
        # "  [ 8] __ksymtab_strings PROGBITS        0000000000000000 0000b0 000054 01 AMS  0   0  1"
        sm = re.match(r"^\s*\[\s*(\d+)\]\s+(\S*)\s+([A-Z_0-9]+|<[^>]*>|[A-Za-z_0-9]+)\s+[0-9a-f]{8,16}\s+[0-9a-f]{6,}", ln)
        if sm and sm.group(1) != "0":
            sections.append({"name": sm.group(2), "type": sm.group(3)})
    tables = {}
    cur = None
    versyms = None          # list of (idx, hidden, name) parallel to .dynsym
    in_versym = False
    for ln in out.splitlines():
        m = _TAB.match(ln)
        if m:
            cur = m.group(1)
            # `-s --dyn-syms` prints .dynsym twice on some versions: keep the first rendition
            if cur in tables:
                cur = None
            else:
                tables[cur] = {"n": int(m.group(2)), "rows": []}
            in_versym = False
            continue
        if ln.startswith("Version symbols section"):
            in_versym, versyms, cur = True, [], None
            continue
        if ln.startswith("Version definition section") or ln.startswith("Version needs section") or ln.startswith("No version information"):
            in_versym, cur = False, None
            continue
        if in_versym:
            mm = re.match(r"^\s+([0-9a-f]+):(.*)$", ln)
            if mm:
                for e in _VERENT.finditer(mm.group(2)):
                    versyms.append((int(e.group(1), 16), e.group(2) == "h", e.group(3)))
            continue
        if cur is None:
            continue
        m = _SYM.match(ln)
        if not m:
            if ln.strip() and not ln.lstrip().startswith("Num:"):
                raise Unusable("unparsed symbol line: %r" % ln[:120])
            continue
        num, value, size, typ, bind, vis, ndx, name = m.groups()
        typ, bind = _OSNUM_TYPE.get(typ, typ), _OSNUM_BIND.get(bind, bind)
        if typ not in _TYPES or bind not in _BINDS or vis not in _VISS:
            raise Unusable("symbol attributes outside the model: %s %s %s" % (typ, bind, vis))
        sz = int(size, 16) if size.startswith("0x") else int(size)
        if sz > 0x7fffffff:
            raise Unusable("symbol size beyond 31 bits")
        name = name or ""
        tables[cur]["rows"].append({"num": int(num), "name": name, "type": typ, "bind": bind, "vis": vis, "shndx": ndx,
                                    "value": value.lower().rjust(16, "0"), "size": sz})
    for t, d in tables.items():
        if len(d["rows"]) != d["n"] or [r["num"] for r in d["rows"]] != list(range(d["n"])):
            raise Unusable("table %s: %d rows parsed, %d announced" % (t, len(d["rows"]), d["n"]))
    res = {"etype": etype, "sections": sections}
    sym = [d for t, d in tables.items() if t == ".symtab"]
    dyn = [d for t, d in tables.items() if t == ".dynsym"]
    if len(tables) != len(sym) + len(dyn):
        raise Unusable("unexpected symbol tables %s" % sorted(tables))
    res["hasSymtab"], res["hasDynsym"] = bool(sym), bool(dyn)
    res["symtab"] = [_finish(r, None, False) for r in (sym[0]["rows"] if sym else [])]
    drows = dyn[0]["rows"] if dyn else []
    if versyms is not None and dyn and len(versyms) != len(drows):
        raise Unusable(".gnu.version has %d entries, .dynsym %d" % (len(versyms), len(drows)))
    res["dynsym"] = [_finish(r, versyms[i] if versyms is not None else None, True) for i, r in enumerate(drows)]
    return res


def _finish(r, versym, dynamic):
    """Split readelf's displayed name.  In .dynsym readelf appends @VER / @@VER (and " (N)" for needed versions) taken
    from .gnu.version; in .symtab the name is the literal string-table entry and carries no version."""
    name = r["name"]
    version, default = "", False
    if dynamic:
        name = re.sub(r" \(\d+\)$", "", name)
        if "@" in name:
            base, _, ver = name.partition("@")
            default = ver.startswith("@")
            ver = ver.lstrip("@")
            name, version = base, ver
        if versym is not None:
            # .gnu.version as dumped by -V is the fact; the suffix readelf appends to the name is a second rendition of
            # it (elided by readelf when the symbol is the version definition's own symbol, e.g. "V1").
            idx, hidden, vname = versym
            if idx >= 2:
                if version and r["shndx"] != "UND" and (version != vname or default != (not hidden)):
                    raise Unusable("readelf disagrees with itself on the version of %s" % r["name"])
                if not version and name != vname:
                    raise Unusable("readelf shows no version for versioned entry %s" % r["name"])
                version, default = vname, not hidden
            elif version:
                raise Unusable("readelf shows a version for an unversioned entry %s" % r["name"])
        if r["shndx"] == "UND":
            default = False
    row = {"name": name, "type": r["type"], "bind": r["bind"], "vis": r["vis"], "shndx": r["shndx"], "value": r["value"],
           "size": r["size"], "version": version, "isDefault": bool(version) and default}
    return row


def row_id(r):
    if not r.get("version"):
        return r["name"]
    return r["name"] + ("@@" if r["isDefault"] else "@") + r["version"]


# ------------------------------------------------------------------------------------------------- libabigail's views
_T = {"func-type": "FUNC", "object-type": "OBJECT", "tls-type": "TLS", "gnu-ifunc-type": "IFUNC", "common-type": "COMMON",
      "no-type": "NOTYPE", "section-type": "SECTION", "file-type": "FILE"}
_B = {"global-binding": "GLOBAL", "local-binding": "LOCAL", "weak-binding": "WEAK", "gnu-unique-binding": "UNIQUE"}
_V = {"default-visibility": "DEFAULT", "protected-visibility": "PROTECTED", "hidden-visibility": "HIDDEN", "internal-visibility": "INTERNAL"}


def abidw_symbols(xml):
    """-> (records, classes, extra) from abidw's stdout.  classes: [[id of a main symbol, ids of its alias attribute...]]"""
    root = ET.fromstring(xml)
    recs, classes, undefined = [], [], 0
    for sect, tag in (("fn", "elf-function-symbols"), ("var", "elf-variable-symbols")):
        for tab in root.iter(tag):
            for e in tab.iter("elf-symbol"):
                a = e.attrib
                ver = a.get("version", "")
                rec = {"name": a["name"], "version": ver, "isDefault": bool(ver) and a.get("is-default-version") == "yes",
                       "type": _T.get(a.get("type"), "?" + a.get("type", "")), "bind": _B.get(a.get("binding"), "?" + a.get("binding", "")),
                       "vis": _V.get(a.get("visibility"), "?" + a.get("visibility", "")), "size": int(a.get("size", "0")),
                       "common": a.get("is-common") == "yes", "sect": sect}
                if a.get("is-defined") != "yes":
                    undefined += 1
                recs.append(rec)
                if a.get("alias"):
                    classes.append([row_id(rec)] + a["alias"].split(","))
    return recs, classes, {"undefined_rows": undefined}


def api_symbols(js):
    """-> (records, classes) from harness/corpus_proj's JSON: every attribute incl. function sizes; classes = alias
    chains restricted to the symbols the corpus lists."""
    listed = set(r["id"] for r in js["symrows"])
    recs, classes, seen = [], [], set()
    for r in js["symrows"]:
        recs.append({k: r[k] for k in ("name", "version", "isDefault", "type", "bind", "vis", "size", "common", "sect")})
        ring = sorted(set(x for x in r["ring"] if x in listed))
        if len(ring) >= 2 and tuple(ring) not in seen:
            seen.add(tuple(ring))
            classes.append(ring)
    return recs, classes


# ------------------------------------------------------------------------------------------------- debug info
_DIE = re.compile(r"^\s*<(\d+)><[0-9a-f]+>: Abbrev Number: \d+ \((DW_TAG_\w+)\)")
_ATTR = re.compile(r"^\s*<[0-9a-f]+>\s+(DW_AT_\w+)\s*:\s*(.*)$")


def dwarf_defs(path):
    """Names and addresses of the functions and variables that debug info *defines* at CU level:
    -> {"fn": [{name, addr}], "var": [{name, addr}]}.  A subprogram counts if it has DW_AT_low_pc (or the first
    address of DW_AT_ranges is not attempted: such DIEs are left out), a variable if its location is DW_OP_addr."""
    out = _readelf(["--debug-dump=info", "-W"], path, timeout=120)
    res = {"fn": [], "var": []}
    cur = None

    def flush():
        if not cur:
            return
        tag, at = cur
        name = at.get("DW_AT_linkage_name") or at.get("DW_AT_name")
        if not name or at.get("DW_AT_declaration"):
            return
        if tag == "DW_TAG_subprogram" and "DW_AT_low_pc" in at:
            try:
                res["fn"].append({"name": name, "addr": "%016x" % int(at["DW_AT_low_pc"].split()[0], 16)})
            except ValueError:
                pass
        elif tag == "DW_TAG_variable" and "DW_AT_location" in at:
            m = re.search(r"\(DW_OP_addr: ([0-9a-f]+)\)\s*$", at["DW_AT_location"])
            if m:
                res["var"].append({"name": name, "addr": "%016x" % int(m.group(1), 16)})

    for ln in out.splitlines():
        m = _DIE.match(ln)
        if m:
            flush()
            cur = (m.group(2), {}) if m.group(1) == "1" else None
            continue
        if cur is None:
            if re.match(r"^\s*<\d+><[0-9a-f]+>: Abbrev Number: 0", ln):
                flush()
            continue
        m = _ATTR.match(ln)
        if m:
            v = re.sub(r"^\((?:addr|strp|string|line_strp|strx\d?|data\d|sdata|udata|flag|flag_present|exprloc|sec_offset|ref\d|ref_addr|block\d?|addrx\d?|implicit_const|rnglistx|loclistx)\)\s*", "", m.group(2).strip())
            if m.group(1) in ("DW_AT_name", "DW_AT_linkage_name"):
                v = re.sub(r"^\((?:indirect (?:line )?string, )?(?:index: 0x[0-9a-f]+, )?offset: 0x[0-9a-f]+\):\s*", "", v)
            cur[1].setdefault(m.group(1), v)
    flush()
    return res
